"""C15 — an input file builds exactly the documented object graph.

Tie to the source: (1) the registries the model runs on (classes, selector keywords, constructor signatures) are
exported from the LIVE ClassFactory on every run and checked in Coq for pairwise disjoint keywords; (2) generated
input files are read by ParameterParser and built by its generate_* methods, with every registered constructor
wrapped (from the harness, signature preserved) to record what reaches it; the model builds the same file from the raw
configobj values; (3) documented selectors / keys are read from doc/source/user/taurex/*.rst and resolved both in the
model and in the implementation; (4) the command-line program is run on whole input files and compared with a
library build that does not use the factories."""
import ast
import contextlib
import inspect
import io
import math
import os
import pickle
import sys

import numpy as np

import common as C
import docparse

META = dict(
    rule='input files over the built-in sections (Temperature, Pressure, Chemistry + gas sub-sections, Planet, Star, '
         'Model + contribution sub-sections, Optimizer, Instrument, Observation, Fitting priors): valid selectors in '
         'any letter case and by every alias, random subsets of the constructor keys with numbers / booleans / lists '
         '/ strings, one unknown key, unknown / missing / non-string selectors, mixin (+) selectors, custom python '
         'files; every documented selector and key; whole input files through the command-line program; non-trivial '
         '= an object is built with >= 1 key set, or an error is raised by a section with >= 2 entries; distinct by '
         'file text',
    trusted=['configobj (file syntax), Python float() for "is this text a number", ast for the text of a prior; '
             'the recording wrappers around constructors (harness side, inspect signature preserved); the reader of '
             'the .rst documentation (harness/docparse.py)',
             'MultiNest / PolyChord classes are discovered through the harness doubles of pymultinest / pypolychord; '
             'dyPolyChord, PHOENIX, ACE and BHMie need packages or data that are not installed and are counted as '
             'documented-but-not-built-in'],
    modelled=['ParameterParser.transform, generate_instrument, generate_observation; factory.generic_factory and the '
              '*_factory functions, determine_klass, get_keywordarg_dict, create_klass, create_profile, create_star, '
              'create_planet, create_optimizer, create_observation, create_instrument, create_chemistry, create_model, '
              'generate_contributions, create_prior; mixin.core.determine_mixin_args, mixed_init (argument routing)'],
    assumptions=['file syntax as configobj reads it; constructors themselves (what they do with their arguments) '
                 'are covered by the other properties'],
)

SECTIONS = [
    # name, registry attr, mixin attr, selector field
    ('Temperature', 'temperatureKlasses', 'temperatureMixinKlasses', 'profile_type'),
    ('Pressure', 'pressureKlasses', 'pressureMixinKlasses', 'profile_type'),
    ('Chemistry', 'chemistryKlasses', 'chemistryMixinKlasses', 'chemistry_type'),
    ('Gas', 'gasKlasses', 'gasMixinKlasses', 'gas_type'),
    ('Planet', 'planetKlasses', 'planetMixinKlasses', 'planet_type'),
    ('Star', 'starKlasses', 'starMixinKlasses', 'star_type'),
    ('Model', 'modelKlasses', 'modelMixinKlasses', 'model_type'),
    ('Contribution', 'contributionKlasses', 'contributionMixinKlasses', None),
    ('Optimizer', 'optimizerKlasses', 'optimizerMixinKlasses', 'optimizer'),
    ('Instrument', 'instrumentKlasses', 'instrumentMixinKlasses', 'instrument'),
    ('Observation', 'observationKlasses', 'observationMixinKlasses', 'observation'),
    ('Prior', 'priorKlasses', None, None),
]
ERR = {1: 'KeyError', 2: 'NotImplementedError', 3: 'TypeError', 4: 'ValueError', 5: 'other'}


# ---------------------------------------------------------------------------------- registry export
def coq_str(s):
    assert all(32 <= ord(ch) < 127 for ch in s), s
    return '"' + s.replace('"', '""') + '"'


def klass_info(k):
    try:
        kws = list(k.input_keywords())
        if not all(isinstance(x, str) for x in kws):
            kws = None
    except Exception:
        kws = None

    def spec(fn):
        a = inspect.getfullargspec(fn)
        params = list(a.args[1:]) + list(a.kwonlyargs)
        d = a.defaults or ()
        defaults = list(zip(a.args[len(a.args) - len(d):], [repr(x) for x in d]))
        return params, defaults, a.varkw is not None
    params, defaults, varkw = spec(k.__init__)
    mix = []
    if hasattr(k, '__init_mixin__'):
        try:
            mix = spec(k.__init_mixin__)[1]
        except Exception:
            mix = []
    return dict(name=k.__name__, kws=kws, params=params, defaults=defaults, varkw=varkw, mixin_args=mix, cls=k)


def klass_lit(i):
    pair = lambda kv: '(%s, %s)' % (coq_str(kv[0]), coq_str(kv[1]))
    return ('{| k_name := %s; k_kws := %s; k_params := %s; k_defaults := %s; k_varkw := %s; k_mixin_args := %s |}' % (
        coq_str(i['name']),
        'Some %s' % C.clist([coq_str(x) for x in i['kws']]) if i['kws'] is not None else 'None',
        C.clist([coq_str(x) for x in i['params']]), C.clist([pair(d) for d in i['defaults']]),
        C.boollit(i['varkw']), C.clist([pair(d) for d in i['mixin_args']])))


def export_registry():
    from taurex.parameter.classfactory import ClassFactory
    cf = ClassFactory()
    reg, mix = {}, {}
    for name, attr, mattr, _ in SECTIONS:
        reg[name] = sorted([klass_info(k) for k in getattr(cf, attr)], key=lambda i: i['name'])
        mix[name] = sorted([klass_info(k) for k in getattr(cf, mattr)], key=lambda i: i['name']) if mattr else []
    text = []
    for name in reg:
        text.append('Definition reg_%s : list klass := %s.' % (name, C.clist([klass_lit(i) for i in reg[name]])))
        text.append('Definition mix_%s : list klass := %s.' % (name, C.clist([klass_lit(i) for i in mix[name]])))
    return reg, mix, '\n'.join(text) + '\n'


HEADER0 = ('From Coq Require Import ZArith List String Bool.\nFrom TV Require Import Model_C15 Exec_C15.\n'
           'Import ListNotations.\nOpen Scope string_scope.\nOpen Scope list_scope.\n')


# ---------------------------------------------------------------------------------- recording constructors
class Recorder:
    def __init__(self):
        self.depth = 0
        self.calls = []
        self.patched = []
        self.ctor_raised = False

    def wrap(self, cls):
        own = '__init__' in cls.__dict__
        if own and getattr(cls.__dict__['__init__'], '_verif', False):
            return
        orig = cls.__dict__['__init__'] if own else cls.__init__      # inherited constructors are wrapped too
        sig = inspect.signature(orig)
        rec = self

        def __init__(self, *a, **kw):
            bound = sig.bind(self, *a, **kw)       # raises TypeError exactly when Python's own binding would
            top = rec.depth == 0
            if top:
                args = dict(bound.arguments)
                args.pop(next(iter(sig.parameters)), None)
                for pname, p in sig.parameters.items():
                    if p.kind is inspect.Parameter.VAR_KEYWORD and pname in args:
                        args.update(args.pop(pname))
                rec.calls.append(([type(self).__name__], args))
            rec.depth += 1
            try:
                return orig(self, *a, **kw)
            except BaseException:     # noqa
                if top:
                    rec.ctor_raised = True
                raise
            finally:
                rec.depth -= 1
        __init__.__signature__ = sig
        __init__.__wrapped__ = orig
        __init__._verif = True
        __init__.__name__ = '__init__'
        __init__.__qualname__ = orig.__qualname__
        cls.__init__ = __init__
        self.patched.append((cls, orig if own else None))

    def install_mixed(self):
        import taurex.mixin.core as core
        orig = core.mixed_init
        rec = self

        def mixed_init(self, **kwargs):
            if rec.depth == 0:
                rec.calls.append(([b.__name__ for b in type(self).__bases__], dict(kwargs)))
            top = rec.depth == 0
            rec.depth += 1
            try:
                return orig(self, **kwargs)
            except BaseException:     # noqa
                if top:
                    rec.ctor_raised = True
                raise
            finally:
                rec.depth -= 1
        core.mixed_init = mixed_init
        self.patched.append((core, orig))

    def remove(self):
        import taurex.mixin.core as core
        for obj, orig in self.patched:
            if obj is core:
                core.mixed_init = orig
            elif orig is None:
                del obj.__init__
            else:
                obj.__init__ = orig
        self.patched = []


# ---------------------------------------------------------------------------------- values
def val_of(rng, cls, key, default_repr, files):
    """text for a key of a class: valid for the real constructor"""
    special = {
        ('NPoint', 'temperature_points'): lambda: '%g, %g' % (rng.uniform(500, 900), rng.uniform(900, 1300)),
        ('NPoint', 'pressure_points'): lambda: '1e4, 1e2',
        ('NPoint', 'P_surface'): lambda: '1e6', ('NPoint', 'P_top'): lambda: '1e-2',
        ('NPoint', 'limit_slope'): lambda: '%d' % rng.randint(100, 9999),
        ('NPoint', 'smoothing_window'): lambda: '%d' % rng.randint(2, 10),
        ('Rodgers2000', 'temperature_layers'): lambda: ', '.join('%g' % rng.uniform(500, 1500) for _ in range(5)),
        ('Rodgers2000', 'covariance_matrix'): None,
        ('TemperatureFile', 'filename'): lambda: files['tp'], ('TemperatureFile', 'press_col'): None,
        ('TemperatureFile', 'delimiter'): None, ('TemperatureFile', 'reverse'): lambda: rng.choice(['True', 'no']),
        ('TemperatureFile', 'temp_units'): None, ('TemperatureFile', 'press_units'): None,
        ('TemperatureFile', 'skiprows'): lambda: '0', ('TemperatureFile', 'temp_col'): lambda: '0',
        # NO (nitric oxide) is also one of the parser's words for False: inside a list it is a molecule name
        ('TaurexChemistry', 'fill_gases'): lambda: rng.choice(['H2, He', 'H2', 'H2, He, N2', 'N2, NO', 'NO, He']),
        ('TaurexChemistry', 'ratio'): lambda: '%g' % rng.uniform(0.05, 0.3),
        ('TaurexChemistry', 'derived_ratios'): lambda: rng.choice(['C/O,', 'C/O, N/O']),
        ('TaurexChemistry', 'base_metallicty'): lambda: '%g' % rng.uniform(0.5, 2),
        ('ChemistryFile', 'filename'): lambda: files['chem'], ('ChemistryFile', 'gases'): lambda: rng.choice(['H2O, CH4', 'H2O, NO', 'NO, CH4']),
        ('PowerGas', 'profile_type'): lambda: rng.choice(['auto', 'H2O', 'TiO']),
        ('ArrayGas', 'mix_ratio_array'): lambda: '1e-4, 1e-5, 1e-6',
        ('CIAContribution', 'cia_pairs'): lambda: rng.choice(['H2-H2,', 'H2-He, H2-H2']),
        ('NestleOptimizer', 'method'): lambda: rng.choice(['single', 'multi']),
        ('MultiNestOptimizer', 'multi_nest_path'): lambda: files['dir'],
        ('MultiNestOptimizer', 'multinest_prefix'): lambda: 'p-',
        ('PolyChordOptimizer', 'polychord_path'): lambda: files['dir'],
        ('PhoenixStar', 'phoenix_path'): None, ('PhoenixStar', 'retro_version_file'): None,
        ('InstrumentFile', 'filename'): None,
        ('SNRInstrument', 'binner'): None,
        ('TransmissionModel', 'new_path_method'): lambda: rng.choice(['True', 'False', 'yes', 'nope']),
        ('SimplePressureProfile', 'nlayers'): lambda: '%d' % rng.randint(3, 12),
    }
    if key in ('planet', 'star', 'pressure_profile', 'temperature_profile', 'chemistry', 'observed', 'model',
               'molecule_name', 'observation'):
        return None
    if (cls, key) in special:
        f = special[(cls, key)]
        return f() if f else None
    if key == 'nlayers':
        return '%d' % rng.randint(3, 12)
    if key in ('atm_min_pressure',):
        return rng.choice(['1e-2', '1e0', '0.5'])
    if key in ('atm_max_pressure',):
        return rng.choice(['1e6', '1e5', '2e6'])
    if key == 'ngauss':
        return '%d' % rng.randint(2, 6)
    try:
        d = ast.literal_eval(default_repr)
    except Exception:
        return None
    if isinstance(d, bool):
        return rng.choice(['True', 'false', 'YES', 'no', 'Yup', 'hell-no', 'certainly', 'nope'])
    if isinstance(d, int):
        return '%d' % max(1, int(d * rng.uniform(0.5, 2)) if d else rng.randint(1, 5))
    if isinstance(d, float):
        v = d * rng.uniform(0.5, 2) if d else rng.uniform(0.1, 2)
        return rng.choice(['%g', '%.3e', '%r']) % v
    if isinstance(d, str):
        return d if d else None
    return None


# keys for which zero is a value the real constructor accepts
ZERO_OK = {'Guillot2010': ('alpha', 'T_int'), 'Planet': ('albedo', 'impact_param'), 'BlackbodyStar': ('metallicity',),
           'LeeMieContribution': ('lee_mie_mix_ratio',), 'FlatMieContribution': ('flat_mix_ratio',),
           'ConstantGas': ('mix_ratio',), 'TwoLayerGas': ('mix_ratio_smoothing',), 'NestleOptimizer': ('tol',)}


def raw_to_lit(v):
    """configobj raw value -> sval literal"""
    def isnum(s):
        try:
            float(s)
            return True
        except Exception:
            return False
    if isinstance(v, (list, tuple)):
        return 'SList %s' % C.clist(['(%s, %s)' % (coq_str(x), C.boollit(isnum(x))) for x in v])
    return 'SStr %s %s' % (coq_str(v), C.boollit(isnum(v)))


def scalars_lit(d):
    return C.clist(['(%s, %s)' % (coq_str(k), raw_to_lit(v)) for k, v in d.items() if not isinstance(v, dict)])


def section_lit(d):
    items = []
    for k, v in d.items():
        if isinstance(v, dict):
            items.append('(%s, RSub %s)' % (coq_str(k), scalars_lit(v)))
        else:
            items.append('(%s, RVal (%s))' % (coq_str(k), raw_to_lit(v)))
    return C.clist(items)


def dec_str(codes):
    return ''.join(chr(c) for c in codes)


def dec_val(v):
    tag = v[0][0]
    if tag == 0:
        return ('bool', bool(v[0][1]))
    if tag == 1:
        return ('num', float(dec_str(v[1])))
    if tag == 2:
        return ('str', dec_str(v[1]))
    if tag == 3:
        return ('listnum', [float(dec_str(x)) for x in v[1:]])
    if tag == 4:
        return ('liststr', [dec_str(x) for x in v[1:]])
    if tag == 5:
        return ('comp', dec_str(v[1]))
    return ('default', dec_str(v[1]))


def dec_out(out):
    """-> ('err', kind) or ('ok', [(names, {key: val})...])"""
    st = out[0][0][0]
    if st[0] == 0:
        return ('err', ERR[st[1]])
    objs = []
    for o in out[1:]:
        names = [dec_str(x) for x in o[0]]
        args = {}
        for a in o[1:]:
            args[dec_str(a[0])] = dec_val(a[1:])
        objs.append((names, args))
    return ('ok', objs)


def err_kind(e):
    if isinstance(e, KeyError):
        return 'KeyError'
    if isinstance(e, NotImplementedError):
        return 'NotImplementedError'
    if isinstance(e, TypeError):
        return 'TypeError'
    if isinstance(e, ValueError):
        return 'ValueError'
    return 'other'


def same_value(mv, iv):
    kind, v = mv
    if kind == 'bool':
        return isinstance(iv, bool) and iv == v
    if kind == 'num':
        return isinstance(iv, float) and not isinstance(iv, bool) and (iv == v or (math.isnan(iv) and math.isnan(v)))
    if kind == 'str':
        return isinstance(iv, str) and iv == v
    if kind == 'listnum':
        return isinstance(iv, list) and len(iv) == len(v) and all(isinstance(a, float) and a == b for a, b in zip(iv, v))
    if kind == 'liststr':
        return isinstance(iv, list) and list(iv) == v
    if kind == 'comp':
        return True
    if kind == 'default':
        return repr(iv) == v
    return False


def compare(model, impl):
    """model: dec_out ; impl: ('err', kind) | ('ok', [(names, kwargs)])"""
    if impl[0] == 'partial':
        if model[0] != 'ok':
            return 'model %s, implementation calls %r' % (short(model), [n for n, _ in impl[1]])
        for inn, ia in impl[1]:
            cands = [o for o in model[1] if o[0] == inn]
            if not cands:
                return 'implementation builds %r, which the model does not' % (inn,)
            errs = [compare(('ok', [o]), ('ok', [(inn, ia)])) for o in cands]
            if all(errs):
                return errs[0]
        return None
    if model[0] != impl[0]:
        return 'model %s, implementation %s' % (short(model), short(impl))
    if model[0] == 'err':
        return None if model[1] == impl[1] else 'model raises %s, implementation raises %s' % (model[1], impl[1])
    if len(model[1]) != len(impl[1]):
        return 'model builds %d objects %r, implementation %d %r' % (
            len(model[1]), [o[0] for o in model[1]], len(impl[1]), [o[0] for o in impl[1]])
    for (mn, ma), (inn, ia) in zip(model[1], impl[1]):
        if mn != inn:
            return 'model builds %r, implementation builds %r' % (mn, inn)
        for k, mv in ma.items():
            if mv[0] == 'default' and k not in ia:
                continue               # klass(**config): a default the call did not pass explicitly
            if k not in ia:
                return '%s: key %s does not reach the constructor (model: %r)' % (mn, k, mv)
            if not same_value(mv, ia[k]):
                return '%s: key %s reaches the constructor as %r, model %r' % (mn, k, ia[k], mv)
        for k in ia:
            if k not in ma:
                return '%s: constructor receives %s=%r which the model does not pass' % (mn, k, ia[k])
    return None


def short(o):
    if o[0] == 'partial':
        return 'calls %r (a constructor body raised)' % ([n for n, _ in o[1]],)
    if o[0] == 'err':
        return 'raises ' + o[1]
    return 'builds %r' % ([n for n, _ in o[1]],)


# ---------------------------------------------------------------------------------- input files
CUSTOM_TEMP = '''
import builtins
import numpy as np
from taurex.data.profiles.temperature import TemperatureProfile


class AaCustomTemp(TemperatureProfile):
    def __init__(self, offset=10.0, label='x', flags=None):
        getattr(builtins, '_verif_custom')(type(self).__name__, dict(offset=offset, label=label, flags=flags))
        super().__init__('AaCustomTemp')
        self._o = offset

    @property
    def profile(self):
        return np.ones(self.nlayers) * self._o
'''


EXT_MODULE = '''
import numpy as np
from taurex.mixin import TemperatureMixin
from taurex.data.profiles.temperature import TemperatureProfile


class Add50Mixin(TemperatureMixin):
    def __init_mixin__(self, offset=50.0):
        self._offset = offset

    @property
    def profile(self):
        return super().profile + self._offset

    @classmethod
    def input_keywords(cls):
        return ['add50', ]


class ExtTemperature(TemperatureProfile):
    def __init__(self, level=700.0, tag='ext'):
        super().__init__('ExtTemperature')
        self._level = level

    @property
    def profile(self):
        return np.ones(self.nlayers) * self._level

    @classmethod
    def input_keywords(cls):
        return ['exttemp', 'extension-temperature']
'''


def load_extension(ctx, tmp):
    """[Global] extension_paths: classes and mixins from the user's directory join the registries"""
    from taurex.parameter import ParameterParser
    from taurex.parameter.classfactory import ClassFactory
    ext = os.path.join(tmp, 'ext')
    os.makedirs(ext, exist_ok=True)
    open(os.path.join(ext, 'verif_ext.py'), 'w').write(EXT_MODULE)
    par = os.path.join(tmp, 'ext.par')
    open(par, 'w').write('[Global]\nextension_paths = %s\n' % ext)
    text = open(par).read()
    try:
        with contextlib.redirect_stdout(io.StringIO()):
            pp = ParameterParser()
            pp.read(par)
            pp.setup_globals()
    except BaseException as e:      # noqa
        import traceback
        ctx.violation('extension-paths', 'an input file with [Global] extension_paths raised %r\n%s\n--- input file ---\n%s'
                      % (e, traceback.format_exc()[-500:], text), replay=dict(file=text))
        return False
    names = {k.__name__ for k in ClassFactory().temperatureKlasses} | {k.__name__ for k in ClassFactory().temperatureMixinKlasses}
    ctx.case(('extension', 'verif_ext'), nontrivial=True)
    if not {'Add50Mixin', 'ExtTemperature'} <= names:
        ctx.violation('extension-paths', 'classes of the extension directory are not in the registries: %r' % sorted(names),
                      replay=dict(file=text))
        return False
    ctx.validated()
    return True


def write_files(d):
    os.makedirs(d, exist_ok=True)
    files = dict(dir=d)
    files['tp'] = os.path.join(d, 'tp.txt')
    np.savetxt(files['tp'], np.array([[1000.0, 1e6], [900.0, 1e4], [800.0, 1e2], [700.0, 1.0]]))
    files['chem'] = os.path.join(d, 'chem.txt')
    np.savetxt(files['chem'], np.array([[1e-4, 1e-5], [1e-4, 1e-5], [1e-4, 1e-5]]))
    files['obs'] = os.path.join(d, 'obs.dat')
    np.savetxt(files['obs'], np.array([[1.0, 0.01, 1e-4], [2.0, 0.011, 1e-4], [3.0, 0.012, 1e-4]]))
    files['custom'] = os.path.join(d, 'custom_temp.py')
    open(files['custom'], 'w').write(CUSTOM_TEMP)
    return files


def gen_component(rng, info, field, files, scenario, aliases_case=True):
    """entries (ordered dict of raw text) for one component of class info"""
    ent = {}
    if field is not None:
        kw = rng.choice(info['kws'])
        if aliases_case:
            kw = rng.choice([kw, kw.upper(), kw.capitalize(), kw])
        ent[field] = kw
    keys = [(k, d) for k, d in info['defaults']]
    rng.shuffle(keys)
    for k, d in keys[:rng.randint(0, min(4, len(keys)))]:
        t = val_of(rng, info['name'], k, d, files)
        if t is not None:
            # a numeric key set to exactly zero is a value like any other (it must reach the constructor)
            if rng.random() < 0.12 and k in ZERO_OK.get(info['name'], ()):
                t = rng.choice(['0', '0.0'])
            ent[k] = t
    if scenario == 'unknown-key':
        ent[rng.choice(['bogus_key', 'Temperature', 't', 'nlayer', 'mix_ratios', 'T_irrr'])] = rng.choice(['1', 'yes', 'a, b'])
    items = list(ent.items())
    rng.shuffle(items)
    return dict(items)


def file_text(sections):
    out = []
    for name, ent in sections.items():
        out.append('[%s]' % name)
        for k, v in ent.items():
            if isinstance(v, dict):
                continue
            out.append('%s = %s' % (k, v))
        for k, v in ent.items():
            if isinstance(v, dict):
                out.append('    [[%s]]' % k)
                for kk, vv in v.items():
                    out.append('    %s = %s' % (kk, vv))
        out.append('')
    return '\n'.join(out) + '\n'


def run_impl(rec, path, gen, model_sections=False):
    """parse the file with ParameterParser and call generate_<gen>; -> ('err', kind) | ('ok', calls)"""
    import builtins
    from taurex.parameter import ParameterParser
    rec.calls = []
    rec.depth = 0
    rec.ctor_raised = False
    builtins._verif_custom = lambda name, args: rec.calls.append(([name], args)) if rec.depth == 0 else None
    pp = ParameterParser()
    try:
        with contextlib.redirect_stdout(io.StringIO()), np.errstate(all='ignore'):
            pp.read(path)
            res = getattr(pp, gen)()
    except BaseException as e:      # noqa
        if rec.ctor_raised:        # the factory did its part: a constructor was called and raised from its body
            return ('partial', list(rec.calls)), e
        return ('err', err_kind(e)), e
    return ('ok', list(rec.calls)), res


def gases_missing(chem, names):
    have = set(list(chem.activeGases) + list(chem.inactiveGases))
    return sorted(n for n in names if n not in have)


def chemistry_subsections_attached(ctx, rng, files, tmp):
    """every run: gas sub-sections under each kind of chemistry selector that accepts gases -- the free chemistry, and
    the documented composite `makefree+file` (a chemistry file made free by the mixin), in both spellings"""
    from taurex.parameter import ParameterParser
    heads = ['chemistry_type = taurex\nfill_gases = H2, He\nratio = 0.17\n',
             'chemistry_type = makefree+file\nfilename = %s\ngases = H2O, CH4\n' % files['chem'],
             'chemistry_type = MakeFree+File\nfilename = %s\ngases = H2O, CH4\n' % files['chem']]
    for hd in heads:
        subs = rng.sample(['N2', 'CO2', 'NH3', 'CO'], rng.randint(1, 3))
        text = '[Chemistry]\n' + hd + ''.join('    [[%s]]\n    gas_type = constant\n    mix_ratio = %g\n'
                                             % (g, 10 ** rng.uniform(-6, -3)) for g in subs)
        path = os.path.join(tmp, 'chem_case.par')
        open(path, 'w').write(text)
        ctx.case(('chemistry-subsections', hd.split('\n')[0], tuple(subs)))
        try:
            pp = ParameterParser()
            with contextlib.redirect_stdout(io.StringIO()), np.errstate(all='ignore'):
                pp.read(path)
                chem = pp.generate_chemistry_profile()
        except Exception as e:
            ctx.violation('chemistry:composite-raises', 'a documented chemistry selector with gas sub-sections raised %r' % (e,),
                          replay=dict(text=text))
            continue
        bad = gases_missing(chem, subs) if hasattr(chem, 'addGas') else subs
        if bad:
            ctx.violation('chemistry:gas-subsection-dropped', 'gas sub-sections %s are not part of the %s built from the '
                          'input file' % (bad, type(chem).__name__), replay=dict(text=text))
        else:
            ctx.validated()
        ctx.count('chemistry selector with gas sub-sections: ' + hd.split('\n')[0].split('=')[1].strip())


# ---------------------------------------------------------------------------------- the check
def run(ctx):
    import configobj
    import taurex.log
    rng = ctx.rng
    tmp = os.path.join(C.CACHE, 'c15_%d' % os.getpid())
    files = write_files(tmp)
    have_ext = load_extension(ctx, tmp)
    reg, mix, regtext = export_registry()
    header = HEADER0 + regtext
    byname = {s[0]: s for s in SECTIONS}
    rec = Recorder()
    for name in reg:
        for i in reg[name] + mix[name]:
            rec.wrap(i['cls'])
    rec.install_mixed()
    try:
        static_checks(ctx, reg, mix, header)
        documented_keys_usable(ctx, rng, reg, files, rec, tmp)
        chemistry_subsections_attached(ctx, rng, files, tmp)
        component_cases(ctx, rng, reg, mix, header, files, rec, tmp, configobj)
    finally:
        rec.remove()
        try:
            from taurex.parameter.classfactory import ClassFactory
            ClassFactory().set_extension_paths(paths=[])
        except Exception:
            pass
    cli_cases(ctx, rng, tmp)
    import shutil
    shutil.rmtree(tmp, ignore_errors=True)


def builtin_claimants():
    """every class defined in the taurex package that claims selector keywords, whether or not the class factory
    finds it: {keyword: [class names]}"""
    import importlib
    import pkgutil
    import taurex
    out = {}
    for m in pkgutil.walk_packages(taurex.__path__, 'taurex.'):
        if any(x in m.name for x in ('.external', 'plot')):
            continue
        try:
            with contextlib.redirect_stdout(io.StringIO()):
                mod = importlib.import_module(m.name)
        except BaseException:     # noqa  optional dependency missing
            continue
        for nm, obj in vars(mod).items():
            if inspect.isclass(obj) and obj.__module__ == m.name and 'input_keywords' in obj.__dict__:
                try:
                    for kw in obj.input_keywords():
                        out.setdefault(kw, set()).add(obj.__name__)
                except Exception:
                    pass
    return out


def static_checks(ctx, reg, mix, header):
    """disjoint keywords per registry; documented selectors and keys resolve (model on the exported registry)"""
    sels, keys = docparse.parse(C.REPO)
    claim = builtin_claimants()
    exprs = ['[[if disjoint reg_%s then 1 else 0; if disjoint mix_%s then 1 else 0]%%Z]' % (n, n) for n in reg]
    names = list(reg)
    doc_cases = []
    for sec, var, kw, klass, where in sels:
        look = kw if sec == 'Contribution' else kw.lower()
        doc_cases.append((sec, kw, look, klass, where))
        exprs.append('[match resolve reg_%s %s with Some k => 1%%Z :: codes (k_name k) | None => [0%%Z] end]'
                     % (sec, coq_str(look)))
    key_cases = []
    for sec, kws, key, typ, default, where in keys:
        for kw in kws:
            look = kw if sec == 'Contribution' else kw.lower()
            key_cases.append((sec, kw, key, typ, where))
            if sec == 'Observation':      # keys the parser reads itself
                exprs.append('[match parser_observation reg_Observation mix_Observation None [(%s, TStr "x")] with '
                             'Ok _ => [1%%Z] | Err _ => [0%%Z] end]' % coq_str(key))
            elif sec == 'Instrument':
                exprs.append('[match parser_instrument reg_Instrument mix_Instrument None '
                             '[("instrument", TStr %s); (%s, TNum "1")] with Ok _ => [1%%Z] | Err _ => [0%%Z] end]'
                             % (coq_str(kw), coq_str(key)))
            else:
                exprs.append('[match resolve reg_%s %s with Some k => [if mem %s (map fst (k_defaults k)) then 1 else 0]%%Z '
                             '| None => [2%%Z] end]' % (sec, coq_str(look), coq_str(key)))
    out = C.run_cases('C15s', header, exprs, shard=400)
    for n, o in zip(names, out[:len(names)]):
        ctx.case(('disjoint', n), nontrivial=len(reg[n]) >= 2)
        if o[0] != [1, 1]:
            amb = {}
            for i in reg[n]:
                for kw in (i['kws'] or []):
                    amb.setdefault(kw, []).append(i['name'])
            ctx.violation('ambiguous-keyword:' + n, 'registry %s: a selector keyword is claimed by two classes: %r'
                          % (n, {k: v for k, v in amb.items() if len(v) > 1}), replay=dict(section=n))
        else:
            ctx.validated()
    from taurex.parameter import factory as F
    base = {'Temperature': 'TemperatureProfile', 'Pressure': 'PressureProfile', 'Chemistry': 'Chemistry', 'Gas': 'Gas',
            'Planet': 'BasePlanet', 'Star': 'Star', 'Model': 'ForwardModel', 'Contribution': 'Contribution',
            'Optimizer': 'Optimizer', 'Instrument': 'Instrument', 'Observation': 'BaseSpectrum'}
    off = len(names)
    for (sec, kw, look, klass, where), o in zip(doc_cases, out[off:off + len(doc_cases)]):
        ctx.count('documented-selector')
        found = o[0][0] == 1
        mname = dec_str(o[0][1:]) if found else None
        # implementation
        try:
            cls = F.generic_factory(look, type(base[sec], (), {}))
            iname = cls.__name__
        except NotImplementedError:
            iname = None
        ctx.case(('doc-sel', sec, kw), nontrivial=True, sample=dict(documented=where, selector=kw, resolves_to=mname))
        if iname != mname:
            ctx.violation('resolve-model:%s:%s' % (sec.lower(), kw), 'selector %s of [%s]: model resolves to %r, '
                          'generic_factory to %r' % (kw, sec, mname, iname), replay=dict(section=sec, selector=kw))
            continue
        if not found:
            if look in claim:
                ctx.violation('unresolved-keyword:%s:%s' % (sec.lower(), kw),
                              'documented selector %s (%s) resolves to no class although %s claims it'
                              % (kw, where, sorted(claim[look])), replay=dict(section=sec, selector=kw, documented=where))
            else:
                ctx.count('documented-but-not-built-in:%s' % kw)
                ctx.validated()
            continue
        ctx.validated()
    off += len(doc_cases)
    for (sec, kw, key, typ, where), o in zip(key_cases, out[off:]):
        ctx.count('documented-key')
        ctx.case(('doc-key', sec, kw, key), nontrivial=True)
        if o[0] == [2]:
            ctx.validated()        # the component itself is not built in: counted above
            continue
        if o[0] != [1]:
            ctx.violation('documented-key:%s:%s:%s' % (sec.lower(), kw, key),
                          'documented key %s of %s = %s (%s) is not a constructor keyword of the class it selects: an '
                          'input file written from the documentation is rejected' % (key, sec, kw, where),
                          replay=dict(section=sec, selector=kw, key=key, documented=where))
        else:
            ctx.validated()


def documented_keys_usable(ctx, rng, reg, files, rec, tmp):
    """every documented key, set to a value of its documented type in an input file, builds the component"""
    sels, keys = docparse.parse(C.REPO)
    gen_of = {'Temperature': 'generate_temperature_profile', 'Pressure': 'generate_pressure_profile',
              'Planet': 'generate_planet', 'Star': 'generate_star', 'Chemistry': 'generate_chemistry_profile',
              'Gas': 'generate_chemistry_profile', 'Contribution': None, 'Instrument': 'generate_instrument'}
    field_of = {s[0]: s[3] for s in SECTIONS}
    seen = set()
    for sec, kws, key, typ, default, where in keys:
        if gen_of.get(sec) is None:
            continue
        kw = kws[0]
        if (sec, kw, key) in seen:
            continue
        seen.add((sec, kw, key))
        cands = [i for i in reg[sec] if i['kws'] and kw.lower() in i['kws']]
        if not cands:
            continue
        info = cands[0]
        if info['name'] == 'PhoenixStar':      # needs the PHOENIX data files, which are not installed
            ctx.count('documented-key-needs-external-data')
            continue
        d = dict(info['defaults'])
        text = val_of(rng, info['name'], key, d.get(key, 'None'), files) if key in d else None
        if sec == 'Instrument':
            text = '3'
        if text is None:
            ctx.count('documented-key-no-sample-value')
            continue
        ent = {field_of[sec]: kw, key: text}
        if info['name'] == 'TemperatureFile':
            ent['filename'] = files['tp']
            if key == 'press_col':
                ent[key] = '1'
        if info['name'] == 'ChemistryFile':
            ent.update(filename=files['chem'], gases='H2O, CH4')
        if info['name'] == 'TaurexChemistry' and key == 'fill_gases':
            ent[key] = 'H2, He'            # more fill gases need a matching list of ratios
        if info['name'] == 'NPoint' and key in ('temperature_points', 'pressure_points'):
            ent.update(temperature_points='1200, 900', pressure_points='1e4, 1e2')
        if sec == 'Gas':
            sections = {'Chemistry': {'chemistry_type': 'taurex', 'fill_gases': 'H2, He', 'H2O': ent}}
        else:
            sections = {sec: ent}
        text_file = file_text(sections)
        path = os.path.join(tmp, 'dockey.par')
        open(path, 'w').write(text_file)
        impl, res = run_impl(rec, path, gen_of[sec])
        ctx.case(('doc-key-usable', sec, kw, key), nontrivial=True)
        ctx.count('documented-key-built')
        if impl[0] != 'ok':
            ctx.violation('documented-key-unusable:%s:%s:%s' % (sec.lower(), kw, key),
                          'documented key %s (%s, %s) set to %r in an input file does not build the component: %s%s\n'
                          '--- input file ---\n%s' % (key, where, typ, ent[key], short(impl),
                                                     (' ' + repr(res)[:300]) if isinstance(res, BaseException) else '', text_file),
                          replay=dict(section=sec, selector=kw, key=key, file=text_file))
        else:
            ctx.validated()


FORCED_MIXINS = ['tempscalar+add50+', 'add50+tempscalar+', 'Add50+TempScalar+', 'tempscalar+', 'add50+']


def component_cases(ctx, rng, reg, mix, header, files, rec, tmp, configobj):
    exprs, metas = [], []
    plan = [('Temperature', 'generate_temperature_profile'), ('Pressure', 'generate_pressure_profile'),
            ('Chemistry', 'generate_chemistry_profile'), ('Planet', 'generate_planet'), ('Star', 'generate_star'),
            ('Model', 'generate_model'), ('Optimizer', 'generate_optimizer'), ('Instrument', 'generate_instrument'),
            ('Observation', 'generate_observation'), ('Fitting', 'generate_fitting_parameters')]
    field_of = {s[0]: s[3] for s in SECTIONS}
    usable = lambda sec: [i for i in reg[sec] if i['kws']]
    for n in range(ctx.n(260, 2600)):
        sec, gen = plan[n % len(plan)]
        scenario = rng.choice(['valid', 'valid', 'valid', 'unknown-key', 'unknown-selector', 'missing-selector',
                               'odd-selector', 'mixin', 'custom'])
        forced_mixin = None
        if n < len(FORCED_MIXINS):
            # every run: each composite selector with two different mixins, in both orders (and the simpler ones)
            (sec, gen), scenario, forced_mixin = plan[0], 'mixin', FORCED_MIXINS[n]
        sections = {}
        custom = 'None'
        if sec in ('Temperature', 'Pressure', 'Planet', 'Star', 'Optimizer'):
            cands = usable(sec)
            if sec == 'Star':
                cands = [i for i in cands if i['name'] != 'PhoenixStar']
            if sec == 'Pressure':
                cands = [i for i in cands if i['name'] == 'SimplePressureProfile'] if rng.random() < 0.8 else cands
            info = rng.choice(cands)
            ent = gen_component(rng, info, field_of[sec], files, scenario)
            if scenario == 'mixin' and sec == 'Temperature':
                ent[field_of[sec]] = (forced_mixin or rng.choice(
                    ['tempscalar+', 'TempScalar+', 'tempscalar+tempscalar+', 'nomixin+', 'add50+',
                     'tempscalar+add50+', 'add50+tempscalar+', 'Add50+TempScalar+'])) + ent[field_of[sec]]
                if rng.random() < 0.7 or forced_mixin:
                    ent['scale_factor'] = '%g' % rng.uniform(0.5, 2)
                if rng.random() < 0.5 or forced_mixin:
                    ent['offset'] = '%g' % rng.uniform(10, 90)
            elif scenario == 'custom' and sec == 'Temperature':
                ent = {'profile_type': rng.choice(['custom', 'Custom']), 'python_file': files['custom']}
                if rng.random() < 0.6:
                    ent['offset'] = '%g' % rng.uniform(1, 50)
                if rng.random() < 0.4:
                    ent['label'] = rng.choice(['abc', 'yes', '12'])
                if rng.random() < 0.3:
                    ent['flags'] = rng.choice(['a, b', '1, 2', '1, b'])
                if rng.random() < 0.2:
                    ent['bogus'] = '1'
                if rng.random() < 0.1:
                    del ent['python_file']
                custom = 'Some (%s)' % klass_lit(dict(name='AaCustomTemp', kws=None, params=['offset', 'label', 'flags'],
                                                     defaults=[('offset', '10.0'), ('label', "'x'"), ('flags', 'None')],
                                                     varkw=False, mixin_args=[]))
            sections[sec] = ent
        elif sec == 'Chemistry':
            info = [i for i in usable('Chemistry') if i['name'] == 'TaurexChemistry'][0] if rng.random() < 0.85 \
                else rng.choice(usable('Chemistry'))
            ent = gen_component(rng, info, 'chemistry_type', files, scenario if rng.random() < 0.5 else 'valid')
            for g in rng.sample(['H2O', 'CH4', 'CO2', 'NH3'], rng.randint(0, 3)):
                gi = rng.choice([i for i in usable('Gas') if i['name'] != 'ArrayGas'])
                ent[g] = gen_component(rng, gi, 'gas_type', files, scenario if rng.random() < 0.3 else 'valid')
            sections[sec] = ent
        elif sec == 'Model':
            info = rng.choice(usable('Model'))
            ent = gen_component(rng, info, 'model_type', files, scenario)
            for c in rng.sample(usable('Contribution'), rng.randint(0, 3)):
                hdr = rng.choice(c['kws'])
                if scenario == 'unknown-selector' and rng.random() < 0.5:
                    hdr = rng.choice([hdr.lower(), hdr + 's', 'Clouds'])
                ent[hdr] = {k: v for k, v in gen_component(rng, c, None, files,
                                                           'unknown-key' if (scenario == 'unknown-key' and rng.random() < 0.5) else 'valid').items()}
            sections['Chemistry'] = {'chemistry_type': 'taurex', 'fill_gases': 'H2, He', 'ratio': '0.17',
                                     'H2O': {'gas_type': 'constant', 'mix_ratio': '1e-4'}}
            sections['Temperature'] = {'profile_type': 'isothermal', 'T': '1000'}
            if rng.random() < 0.5:
                sections['Planet'] = {'planet_type': 'simple', 'planet_mass': '1.0'}
            if rng.random() < 0.5:
                sections['Star'] = {'star_type': 'blackbody'}
            sections[sec] = ent
        elif sec == 'Instrument':
            if rng.random() < 0.7:
                ent = {'instrument': rng.choice(['snr', 'SNR', 'signalnoise', 'Snr'])}
                if rng.random() < 0.7:
                    ent['SNR'] = '%d' % rng.randint(5, 50)
                if rng.random() < 0.4:
                    ent['num_observations'] = '%d' % rng.randint(1, 9)
                if scenario == 'unknown-key':
                    ent[rng.choice(['num_observation', 'snr', 'noise'])] = '3'
            else:
                ent = gen_component(rng, rng.choice(usable('Instrument')), 'instrument', files, scenario)
                ent['instrument'] = rng.choice(['signal-noise-ratio', 'nonesuch', 'file'])
            sections[sec] = ent
        elif sec == 'Observation':
            k = rng.choice(['observed_spectrum', 'observed_spectrum', 'taurex_spectrum', 'observation'])
            if k == 'observed_spectrum':
                ent = {k: files['obs']}
            elif k == 'taurex_spectrum':
                ent = {k: 'self'}
            else:
                ent = {'observation': rng.choice(['observed', 'text', 'dat-file', 'nonesuch', 'Observed']), 'filename': files['obs']}
            if scenario == 'unknown-key':
                ent[rng.choice(['observed_lightcurve', 'units', 'filename2'])] = 'x'
            sections[sec] = ent
        else:   # Fitting priors
            pname = rng.choice(['Uniform', 'uniform', 'UNIFORM', 'LogUniform', 'loguniform', 'Gaussian', 'LogGaussian',
                                'Nonesuch', 'Loguniform'])
            if 'aussian' in pname:
                args = 'mean=%s, std=%g' % (rng.choice(['0', '0.0', '%g' % rng.uniform(1, 5), '-1.5']), rng.uniform(0.1, 1))
            else:
                args = 'bounds=(%s, %g)' % (rng.choice(['0', '0.0', '%g' % rng.uniform(0, 1)]), rng.uniform(2, 5))
            if scenario == 'unknown-key':
                args += ', bogus=1'
            sections[sec] = {'T:fit': 'True', 'T:prior': '"%s(%s)"' % (pname, args)}
        if scenario == 'unknown-selector' and sec in field_of and field_of[sec] and sec in sections:
            sections[sec][field_of[sec]] = rng.choice(['nonesuch', 'isothermal2', 'simple ', 'black-body', 'custom2'])
        if scenario == 'missing-selector' and sec in field_of and field_of[sec] and sec in sections:
            sections[sec].pop(field_of[sec], None)
        if scenario == 'odd-selector' and sec in field_of and field_of[sec] and sec in sections:
            sections[sec][field_of[sec]] = rng.choice(['5', 'True', 'a, b', 'isothermal+', '+isothermal'])
        text = file_text(sections)
        path = os.path.join(tmp, 'case.par')
        open(path, 'w').write(text)
        raw = configobj.ConfigObj(path)
        rsec = raw.get(sec, {})
        impl, res = run_impl(rec, path, gen)
        # model expression
        if sec in ('Temperature', 'Pressure'):
            e = 'out1 (create_profile reg_%s mix_%s (%s) %s (typed %s))' % (sec, sec, custom, coq_str(field_of[sec]), scalars_lit(rsec))
        elif sec == 'Chemistry':
            e = 'out2 (create_chemistry reg_Chemistry mix_Chemistry reg_Gas mix_Gas None (typed_section %s))' % section_lit(rsec)
        elif sec == 'Planet':
            e = 'out1 (create_planet reg_Planet mix_Planet None (typed %s))' % scalars_lit(rsec)
        elif sec in ('Star', 'Optimizer'):
            e = 'out1 (create_direct reg_%s mix_%s None %s (typed %s))' % (sec, sec, coq_str(field_of[sec]), scalars_lit(rsec))
        elif sec == 'Model':
            e = 'out2 (create_model reg_Model mix_Model reg_Contribution None (typed_section %s))' % section_lit(rsec)
        elif sec == 'Instrument':
            e = 'out1 (parser_instrument reg_Instrument mix_Instrument None (typed %s))' % scalars_lit(rsec)
        elif sec == 'Observation':
            e = 'out1 (parser_observation reg_Observation mix_Observation None (typed %s))' % scalars_lit(rsec)
        else:
            ptxt = rsec['T:prior']
            try:
                tree = ast.parse(ptxt).body[0].value
                pname = tree.func.id
                pargs = {kw.arg: ast.literal_eval(kw.value) for kw in tree.keywords}
            except Exception:
                continue
            alit = C.clist(['(%s, TStr %s)' % (coq_str(k), coq_str(repr(v))) for k, v in pargs.items()])
            e = 'out1 (create_prior reg_Prior %s %s)' % (coq_str(pname), alit)
        # every gas sub-section is attached to the chemistry that was built (whatever class the selector resolved to,
        # as long as it accepts gases)
        if sec == 'Chemistry' and impl[0] == 'ok' and hasattr(res, 'addGas'):
            bad = gases_missing(res, [k for k, v in rsec.items() if isinstance(v, dict)])
            if bad:
                ctx.violation('chemistry:gas-subsection-dropped', 'gas sub-sections %s were constructed but are not part of '
                              'the %s built from the input file' % (bad, type(res).__name__), replay=dict(text=text))
        # only the calls that build THIS section's objects
        if impl[0] in ('ok', 'partial'):
            calls = impl[1]
            if sec == 'Model':
                want = {i['name'] for i in reg['Model'] + reg['Contribution']}
                calls = [c for c in calls if c[0][-1] in want]
                calls = [c for c in calls if c[0][-1] in {i['name'] for i in reg['Model']}] + \
                        [c for c in calls if c[0][-1] not in {i['name'] for i in reg['Model']}]
            elif sec == 'Chemistry':
                chem = {i['name'] for i in reg['Chemistry']}
                calls = [c for c in calls if c[0][-1] in chem] + [c for c in calls if c[0][-1] not in chem]
            elif sec == 'Observation' and res == 'self':
                calls = [(['self'], {})]
            elif sec == 'Fitting':
                prs = {i['name'] for i in reg['Prior']}
                calls = [(c[0], {k: repr(v) for k, v in c[1].items()}) for c in calls if c[0][-1] in prs]
            impl = (impl[0], calls)
        exprs.append(e)
        metas.append(dict(sec=sec, scenario=scenario, text=text, impl=impl, gen=gen))
        ctx.count('section:' + sec)
        ctx.count('scenario:' + scenario)
        ctx.count('implementation:' + ('built' if impl[0] == 'ok' else 'constructor-body-raised' if impl[0] == 'partial' else impl[1]))
    for mt, out in zip(metas, C.run_cases('C15c', header, exprs, shard=20)):
        model = dec_out(out)
        impl = mt['impl']
        if mt['sec'] == 'Fitting' and model[0] == 'ok':
            model = ('ok', [(n, {k: ('str', v[1]) if v[0] == 'str' else v for k, v in a.items()}) for n, a in model[1]])
        bad = compare(model, impl)
        nontriv = (impl[0] in ('ok', 'partial') and any(len(a) for _, a in impl[1])) or (impl[0] == 'err' and mt['text'].count('=') >= 2)
        ctx.case(mt['text'], nontrivial=nontriv,
                 sample=dict(section=mt['sec'], scenario=mt['scenario'], outcome=short(impl)))
        if bad:
            ctx.violation('build:%s:%s' % (mt['sec'].lower(), classify(bad)),
                          '[%s] %s\n--- input file ---\n%s' % (mt['sec'], bad, mt['text']),
                          replay=dict(section=mt['sec'], file=mt['text'], method=mt['gen']))
        else:
            ctx.validated()


def classify(bad):
    if 'model raises KeyError' in bad or 'model raises KeyError, implementation builds' in bad:
        return 'unknown-key-accepted'
    if 'model builds' in bad and 'implementation raises' in bad:
        return 'valid-rejected'
    if 'raises' in bad and 'builds' in bad:
        return 'error-mismatch'
    if 'reaches the constructor as' in bad:
        return 'value'
    return 'other'


# ---------------------------------------------------------------------------------- command line vs library
def write_xsec(d, rng, gases, wn):
    os.makedirs(d, exist_ok=True)
    tg = np.array([500.0, 1000.0, 1500.0, 2000.0])
    pg = np.array([1e-6, 1e-3, 1.0, 10.0])          # bar
    for g in gases:
        x = np.array([[[10 ** rng.uniform(-24, -20) for _ in wn] for _ in tg] for _ in pg])
        with open(os.path.join(d, '%s.pickle' % g), 'wb') as f:
            pickle.dump(dict(name=g, t=tg, p=pg, wno=np.array(wn), xsecarr=x), f)


def cli_cases(ctx, rng, tmp):
    import taurex.taurex as prog
    from taurex.cache import OpacityCache, CIACache, GlobalCache
    for n in range(ctx.n(14, 80)):
        d = os.path.join(tmp, 'cli%d' % n, 'xsec')
        od = os.path.join(tmp, 'cli%d' % n)
        gases = rng.sample(['H2O', 'CH4', 'CO2'], rng.randint(1, 2))
        wn = np.linspace(500.0, 5000.0, rng.choice([30, 45]))
        write_xsec(d, rng, gases, wn)
        mtype = rng.choice(['transmission', 'emission', 'directimage'])
        T = rng.uniform(800, 1600)
        tkind = rng.choice(['isothermal', 'guillot'])
        nl = rng.randint(5, 15)
        mix = {g: 10 ** rng.uniform(-6, -3) for g in gases}
        pm, pr = rng.uniform(0.5, 2), rng.uniform(0.8, 1.5)
        st, sr = rng.uniform(4000, 6500), rng.uniform(0.7, 1.3)
        cloudsP = 10 ** rng.uniform(1, 4)
        contribs = ['Absorption'] + rng.sample(['Rayleigh', 'SimpleClouds'], rng.randint(0, 2))
        lines = ['[Global]', 'xsec_path = %s' % d, '', '[Chemistry]', 'chemistry_type = taurex', 'fill_gases = H2, He',
                 'ratio = 0.17']
        for g in gases:
            lines += ['    [[%s]]' % g, '    gas_type = constant', '    mix_ratio = %r' % mix[g]]
        lines += ['', '[Temperature]']
        if tkind == 'isothermal':
            lines += ['profile_type = isothermal', 'T = %r' % T]
        else:
            lines += ['profile_type = guillot', 'T_irr = %r' % T]
        lines += ['', '[Pressure]', 'profile_type = Simple', 'atm_min_pressure = 1e-1', 'atm_max_pressure = 1e6',
                  'nlayers = %d' % nl, '', '[Planet]', 'planet_type = simple', 'planet_mass = %r' % pm,
                  'planet_radius = %r' % pr, '', '[Star]', 'star_type = blackbody', 'temperature = %r' % st,
                  'radius = %r' % sr, '', '[Model]', 'model_type = %s' % mtype]
        for c in contribs:
            lines += ['    [[%s]]' % c]
            if c == 'SimpleClouds':
                lines += ['    clouds_pressure = %r' % cloudsP]
        # ---- optional [Observation], [Binning], [Instrument] sections
        obs_file = None
        if rng.random() < 0.5:
            nb = rng.randint(3, 8)
            owl = np.sort(np.array([rng.uniform(10000 / 4500.0, 10000 / 700.0) for _ in range(nb)]))
            cols = [owl, np.array([rng.uniform(1e-3, 2e-2) for _ in range(nb)]),
                    np.array([rng.uniform(1e-5, 1e-4) for _ in range(nb)])]
            if rng.random() < 0.5:
                gaps = np.diff(owl)
                cols.append(np.array([rng.uniform(0.3, 0.9) * min(gaps[max(i - 1, 0)], gaps[min(i, nb - 2)]) for i in range(nb)]))
            obs_file = os.path.join(od, 'obs.dat')
            rows = np.vstack(cols).T
            if rng.random() < 0.5:
                rows = rows[::-1]
            np.savetxt(obs_file, rows)
            lines += ['', '[Observation]', 'observed_spectrum = %s' % obs_file]
        bin_kind = rng.choice(['absent', 'native', 'observed', 'manual', 'manual'] if obs_file else
                              ['absent', 'native', 'manual', 'manual'])
        manual = None
        if bin_kind != 'absent':
            lines += ['', '[Binning]', 'bin_type = %s' % bin_kind]
            if bin_kind == 'manual':
                key = rng.choice(['wavelength_grid', 'wavenumber_grid', 'log_wavelength_grid', 'log_wavenumber_grid',
                                  'wavelength_res'])
                if 'wavenumber' in key:
                    a, b = rng.uniform(600, 1500), rng.uniform(3000, 4800)
                else:
                    a, b = rng.uniform(2.2, 3.5), rng.uniform(7.0, 15.0)
                c = rng.randint(3, 12) if key != 'wavelength_res' else rng.choice([5, 10, 20])
                acc = rng.choice([None, True, False])
                manual = (key, a, b, c, acc)
                lines += ['%s = %r, %r, %d' % (key, a, b, c)]
                if acc is not None:
                    lines += ['accurate = %s' % acc]
        snr, self_obs = None, False
        if rng.random() < 0.4:
            snr = (rng.choice([5, 10.0, 25.5]), rng.choice([None, 1, 4, 9]))
            lines += ['', '[Instrument]', 'instrument = snr', 'SNR = %r' % snr[0]]
            if snr[1] is not None:
                lines += ['num_observations = %d' % snr[1]]
            if obs_file is None and rng.random() < 0.5:
                # the noised forward model is its own observation (documented for the instrument section)
                lines += ['', '[Observation]', 'taurex_spectrum = self']
                self_obs = True
        par = os.path.join(od, 'in.par')
        open(par, 'w').write('\n'.join(lines) + '\n')
        out_h5, out_txt = os.path.join(od, 'out.h5'), os.path.join(od, 'spec.txt')
        rp = dict(part='command line', input_file='\n'.join(lines))
        argv = sys.argv
        try:
            sys.argv = ['taurex', '-i', par, '-o', out_h5, '-S', out_txt]
            OpacityCache().clear_cache()
            with contextlib.redirect_stdout(io.StringIO()), np.errstate(all='ignore'):
                prog.main()
        except BaseException as e:      # noqa
            import traceback
            ctx.violation('cli-raises', 'the command-line program raised %r on a well-formed input file\n%s'
                          % (e, traceback.format_exc()[-1200:]), replay=rp)
            continue
        finally:
            sys.argv = argv
        import h5py
        with h5py.File(out_h5, 'r') as f:
            cli_native = f['Output/Spectra/native_spectrum'][...]
            cli_wn = f['Output/Spectra/native_wngrid'][...]
            cli_binned = f['Output/Spectra/binned_spectrum'][...] if 'binned_spectrum' in f['Output/Spectra'] else None
            cli_bwn = f['Output/Spectra/binned_wngrid'][...] if 'binned_wngrid' in f['Output/Spectra'] else None
            cli_inst = {k: f['Output/Spectra/' + k][...] for k in ('instrument_wngrid', 'instrument_spectrum',
                                                                  'instrument_noise') if k in f['Output/Spectra']}
            cli_obs = {k: f['Observed/' + k][...] for k in ('spectrum', 'errorbars', 'wlgrid') if 'Observed' in f and k in f['Observed']}
        cli_txt = np.loadtxt(out_txt)
        # library build: no parser, no factory
        from taurex.data.planet import Planet
        from taurex.data.stellar import BlackbodyStar
        from taurex.data.profiles.chemistry import TaurexChemistry, ConstantGas
        from taurex.data.profiles.temperature import Isothermal, Guillot2010
        from taurex.data.profiles.pressure import SimplePressureProfile
        from taurex.model import TransmissionModel, EmissionModel, DirectImageModel
        from taurex import contributions as CT
        OpacityCache().clear_cache()
        OpacityCache().set_opacity_path(d)
        chem = TaurexChemistry(fill_gases=['H2', 'He'], ratio=0.17)
        for g in gases:
            chem.addGas(ConstantGas(g, mix_ratio=mix[g]))
        temp = Isothermal(T=T) if tkind == 'isothermal' else Guillot2010(T_irr=T)
        press = SimplePressureProfile(nlayers=nl, atm_min_pressure=1e-1, atm_max_pressure=1e6)
        M = dict(transmission=TransmissionModel, emission=EmissionModel, directimage=DirectImageModel)[mtype]
        model = M(planet=Planet(planet_mass=pm, planet_radius=pr), star=BlackbodyStar(temperature=st, radius=sr),
                  pressure_profile=press, temperature_profile=temp, chemistry=chem)
        for c in contribs:
            model.add_contribution(dict(Absorption=lambda: CT.AbsorptionContribution(),
                                        Rayleigh=lambda: CT.RayleighContribution(),
                                        SimpleClouds=lambda: CT.SimpleCloudsContribution(clouds_pressure=cloudsP))[c]())
        model.build()
        with np.errstate(all='ignore'):
            lib_wn, lib_native, _, _ = model.model()
        # the resampling the documentation of [Binning] / [Observation] / [Instrument] describes, built from library objects
        from taurex.binning import FluxBinner, SimpleBinner
        from taurex.data.spectrum.observed import ObservedSpectrum
        lib_res = (lib_wn, lib_native, None, None)
        kind_eff = bin_kind if bin_kind != 'absent' else ('observed' if obs_file else 'native')
        if kind_eff == 'native':
            exp_wn, exp_binned = lib_wn, lib_native
        elif kind_eff == 'observed':
            ob = ObservedSpectrum(obs_file)
            exp_wn = np.array(ob.wavenumberGrid)
            exp_binned = ob.create_binner().bin_model(lib_res)[1]
        else:
            key, a, b, c, acc = manual
            if key == 'wavelength_grid':
                exp_wn = np.sort(10000 / np.linspace(a, b, c))
            elif key == 'wavenumber_grid':
                exp_wn = np.linspace(a, b, c)
            elif key == 'log_wavelength_grid':
                exp_wn = np.sort(10000 / np.logspace(math.log10(a), math.log10(b), c))
            elif key == 'log_wavenumber_grid':
                exp_wn = np.logspace(math.log10(a), math.log10(b), c)
            else:
                # constant resolving power: the library's own grid builder (what a library user would call)
                from taurex.util.util import create_grid_res
                exp_wn = 10000 / create_grid_res(c, a, b)[:, 0].flatten()[::-1]
            if exp_wn is not None:
                with np.errstate(all='ignore'):
                    exp_binned = (FluxBinner if acc else SimpleBinner)(exp_wn).bin_model(lib_res)[1]
        ctx.case(('cli', '\n'.join(lines)), nontrivial=True,
                 sample=dict(model=mtype, gases=gases, contributions=contribs, native_points=len(lib_wn),
                             observation=bool(obs_file), binning=bin_kind, manual=manual and manual[0], instrument=snr))
        ctx.count('cli:' + mtype)
        ctx.count('cli:binning=' + bin_kind + (':' + manual[0] if manual else ''))
        bad_bin = None
        if True:
            exp_txt = exp_binned
            got_wl = cli_txt[:, 0] if cli_txt.ndim == 2 else cli_txt[None, :][:, 0]
            got_sp = cli_txt[:, 1] if cli_txt.ndim == 2 else cli_txt[None, :][:, 1]
            o1, o2 = np.argsort(10000 / got_wl), np.argsort(exp_wn)
            same = lambda x, y: np.allclose(x, y, rtol=1e-6, atol=0, equal_nan=True)
            if len(got_wl) != len(exp_wn) or not same((10000 / got_wl)[o1], exp_wn[o2]):
                bad_bin = 'the spectrum file is on the grid %r, the input file asks for %r' % ((10000 / got_wl)[o1][:5], exp_wn[o2][:5])
            elif not same(got_sp[o1], np.asarray(exp_txt)[o2]):
                bad_bin = 'the spectrum file holds %r, resampling the library spectrum as the input file asks gives %r' % (
                    got_sp[o1][:5], np.asarray(exp_txt)[o2][:5])
            elif not self_obs and cli_binned is not None and cli_bwn is not None and not (
                    same(np.sort(cli_bwn), np.sort(exp_wn)) and same(cli_binned[np.argsort(cli_bwn)], np.asarray(exp_txt)[o2])):
                bad_bin = 'the output file stores the binned spectrum %r on %r, expected %r on %r' % (
                    cli_binned[:4], cli_bwn[:4], np.asarray(exp_txt)[:4], exp_wn[:4])
            elif snr is not None:
                sp = np.asarray(exp_txt, float)
                noise = (np.max(sp) - np.min(sp)) / snr[0] / math.sqrt(snr[1] or 1)
                got_err = cli_txt[:, 2] if cli_txt.ndim == 2 else cli_txt[None, :][:, 2]
                if np.isnan(noise):
                    pass        # a manual grid with empty bins: the spectrum holds NaN and so does the noise
                elif not np.allclose(got_err, noise, rtol=1e-6):
                    bad_bin = 'instrument noise %r, documented (max-min)/SNR/sqrt(num_observations) = %r' % (got_err[:3], noise)
                elif 'instrument_noise' not in cli_inst or not np.allclose(cli_inst['instrument_noise'], noise, rtol=1e-9):
                    bad_bin = 'instrument noise missing from / wrong in the output file: %r' % (cli_inst.get('instrument_noise'),)
                elif self_obs and not (len(cli_obs) == 3 and np.allclose(np.sort(cli_obs['spectrum']), np.sort(sp), rtol=1e-9)
                                       and np.allclose(cli_obs['errorbars'], noise, rtol=1e-9)
                                       and np.allclose(np.sort(10000 / cli_obs['wlgrid']), np.sort(exp_wn), rtol=1e-9)):
                    bad_bin = 'taurex_spectrum = self: the stored observation %r is not the noised forward model' % (
                        {k: v[:3] for k, v in cli_obs.items()},)
            elif snr is None and cli_txt.ndim == 2 and np.any(cli_txt[:, 2] != 0):
                bad_bin = 'error column %r without an instrument' % cli_txt[:3, 2]
        if bad_bin:
            ctx.violation('cli-binning', 'command-line resampling: ' + bad_bin, replay=rp)
            continue
        if not (np.array_equal(cli_wn, lib_wn) and np.allclose(cli_native, lib_native, rtol=1e-12, atol=0)):
            ctx.violation('cli-spectrum', 'command-line spectrum differs from the library build of the same components: '
                          '%r vs %r' % (cli_native[:4], lib_native[:4]), replay=rp)
        elif kind_eff == 'native' and not (cli_txt.shape[0] == len(lib_wn) and
                                           np.allclose(np.sort(cli_txt[:, 1]), np.sort(lib_native), rtol=1e-6)):
            ctx.violation('cli-spectrum-file', 'the spectrum file written with -S differs from the library spectrum',
                          replay=rp)
        else:
            ctx.validated()
    OpacityCache().clear_cache()


def replay(ctx, obj):
    ctx.notes.append('replay re-runs the whole deterministic check with the stored seed')
    run(ctx)
