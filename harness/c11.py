"""C11 — vertical structure is hydrostatic, ordered and one value per layer."""
import math

import numpy as np

import common as C
import tmodel

META = dict(
    rule='random planets (0.03..10 M_J, 0.15..2 R_J), 1..60 layers, pressure ranges, isothermal and arbitrary '
         'temperature profiles, compositions (hence molecular weights); direct calls of '
         'Planet.calculate_scale_properties on arbitrary decreasing level grids; array pressure profiles; '
         'non-trivial = at least 2 layers and non-isothermal or non-uniform; distinct by spec',
    trusted=['math.log10 of the pressure bounds is taken by the harness as the code takes it; G, k from '
             'taurex.constants; temperature and molecular-weight profiles observed on the model'],
    modelled=['SimplePressureProfile.compute_pressure_profile, BasePlanet.calculate_scale_properties / '
              'gravity_at_height, SimpleForwardModel slicing into altitude/scale-height/gravity profiles and '
              'densityProfile; ArrayPressureProfile level reconstruction (Model_C11a: exact rationals in log10 space; the log10 '
              'and the power of ten at either end are taken by the harness); generate_profile_dict is checked by the '
              'property oracle only (lengths, ordering, bracketing)'],
    assumptions=['pmin < pmax, positive temperatures and molecular weights',
                 'tolerance 1e-9 relative (80-bit interval enclosures)'],
)

HEADER = C.HEADER_IV + 'From TV Require Import Model_C11 Exec_C11.\n'


def cmp_list(name, impl, model, rel=1e-9, abs_=0.0):
    if len(impl) != len(model):
        return '%s: %d values, model %d' % (name, len(impl), len(model))
    for i, (x, v) in enumerate(zip(impl, model)):
        if not C.in_enclosure(float(x), v, rel=rel, abs_=abs_):
            return '%s[%d]: impl %r model %r' % (name, i, float(x), C.iv_mid(v))
    return None


def oracle(ctx, o, rp):
    n = o['n']
    lv, P, z, zb, dz = o['levels'], o['P'], o['z'], o['zb'], o['dz']
    bad = []
    if len(lv) != n + 1 or np.any(np.diff(lv) >= 0):
        bad.append('levels not strictly decreasing with n+1 entries')
    if not np.allclose(P, np.sqrt(lv[:-1] * lv[1:]), rtol=1e-12):
        bad.append('layer pressure is not the geometric mean of its levels')
    for name in ('P', 'T', 'rho', 'z', 'g', 'H', 'dz', 'mu'):
        if len(o[name]) != n:
            bad.append('%s has %d entries for %d layers' % (name, len(o[name]), n))
    if len(zb) != n + 1:
        bad.append('altitude_boundaries has %d entries' % len(zb))
    if bad:
        for b in bad:
            ctx.violation('structure:' + b.split()[0], b, replay=rp)
        return
    if zb[0] != 0 or np.any(np.diff(zb) <= 0):
        bad.append('altitude does not start at zero and increase strictly')
    if not np.allclose(np.diff(zb), dz, rtol=1e-12) or not np.array_equal(zb[:-1], z):
        bad.append('boundaries, layer altitudes and thicknesses are inconsistent')
    if not np.allclose(dz, o['H'] * np.log(lv[:-1] / lv[1:]), rtol=1e-10):
        bad.append('dz is not H ln(P_lower/P_upper)')
    if not np.allclose(o['g'], o['GM'] / (o['R'] + z) ** 2, rtol=1e-12):
        bad.append('gravity is not the inverse-square law')
    if not np.allclose(o['H'], o['k'] * o['T'] / (o['mu'] * o['g']), rtol=1e-12):
        bad.append('scale height is not kT/(mu g)')
    if not np.allclose(o['rho'], P / (o['k'] * o['T']), rtol=1e-12):
        bad.append('density is not P/(kT)')
    for key, val in o['profiles'].items():
        a = np.asarray(val)
        if a.shape[-1] != n:
            bad.append('stored profile %s has shape %r for %d layers' % (key, a.shape, n))
    for b in bad:
        ctx.violation('structure:' + b.split()[0], b, replay=rp)


def snapshot(model, n, prof, K):
    return dict(n=n, levels=np.array(model.pressure.pressure_profile_levels, float),
                 P=np.array(model.pressureProfile, float), T=np.array(model.temperatureProfile, float),
                 rho=np.array(model.densityProfile, float), z=np.array(model.altitudeProfile, float),
                 zb=np.array(model.altitude_boundaries, float), dz=np.array(model.deltaz, float),
                 g=np.array(model.gravity_profile, float), H=np.array(model.scaleheight_profile, float),
                 mu=np.array(model.chemistry.muProfile, float), profiles=prof,
                 GM=float(K.G) * float(model.planet.fullMass), R=float(model.planet.fullRadius), k=float(K.KBOLTZ))


def run(ctx):
    C.source_tie(ctx, 'C11', [
        dict(file='taurex/data/planet.py', cls='BasePlanet', method='gravity_at_height', coq='gen_gravity_at_height',
             params=['self.fullMass', 'self.fullRadius', 'height'], results=None, consts=('G',)),
        dict(file='taurex/data/planet.py', cls='BasePlanet', method='calculate_scale_properties', coq='gen_scale_step',
             params=['H[i-1]', 'Pl[i]', 'Pl[i-1]', 'z[i-1]', 'T[i]', 'mu[i]'], results=['deltaz[i]', 'z[i]', 'g[i]', 'H[i]'],
             loop=True, opaque={'self.gravity_at_height': ('grav_at', 1)}, consts=('KBOLTZ',)),
        dict(file='taurex/data/planet.py', cls='BasePlanet', method='gravity', coq='gen_surface_gravity',
             params=['self.fullMass', 'self.fullRadius'], results=None, consts=('G',)),
        dict(file='taurex/data/planet.py', cls='BasePlanet', method='calculate_scale_properties', coq='gen_scale_init',
             params=['self.gravity', 'T[0]', 'mu[0]'], results=['g[0]', 'H[0]'], start='g[0]', consts=('KBOLTZ',))])
    from taurex import constants as K
    from taurex.data.planet import Planet
    rng = ctx.rng
    e1, m1, e2, m2 = [], [], [], []
    for i in range(ctx.n(50, 400)):
        n = rng.choice([1, 2, 3, 4, 5, 7, 10, 13, 20, 33, 60])
        spec = tmodel.gen_spec(rng, nlayers=n, nwn=1, contribs=['Absorption'])
        spec['planet_mass'] = 10 ** rng.uniform(-1.5, 1.0)
        spec['planet_radius'] = 10 ** rng.uniform(-0.8, 0.3)
        if len(spec['T']) > 1 and rng.random() < 0.35:
            spec['T'] = [int(t) for t in spec['T']]
        rp = dict(spec=spec)
        try:
            model = tmodel.build(spec)
            with np.errstate(all='ignore'):
                model.initialize_profiles()
                prof = model.generate_profiles()
        except Exception as e:
            ctx.violation('impl-raises:' + C.err_kind(e), 'model raised %r' % (e,), replay=rp)
            continue
        o = snapshot(model, n, prof, K)
        if not np.all(np.isfinite(o['zb'])) or o['zb'][-1] > 50 * o['R']:
            # runaway atmosphere (scale height comparable to the radius): altitudes overflow binary64; outside
            # what floating point can represent, skipped and counted
            ctx.count('skipped:runaway-atmosphere')
            continue
        oracle(ctx, o, rp)
        e1.append('run_levels %s %s %s' % (C.iv(math.log10(spec['pmin'])), C.iv(math.log10(spec['pmax'])), C.natlit(n)))
        m1.append((o, rp))
        e2.append('run_scale %s %s %s %s %s %s %s' % (C.iv(o['GM']), C.iv(o['R']), C.iv(o['k']), C.ivlist(o['T']),
                                                     C.ivlist(o['mu']), C.ivlist(o['levels']), C.ivlist(o['P'])))
        m2.append((o, rp, spec))
        ctx.count('layers:%d' % n)
        ctx.count('T:' + ('iso' if len(spec['T']) == 1 else 'profile'))
        if rng.random() < 0.5:
            # the same model with its pressure bounds and planet changed through the fitting parameters, evaluated again
            new = dict(atm_min_pressure=spec['pmin'] * 10 ** rng.uniform(-0.4, 0.4),
                       atm_max_pressure=spec['pmax'] * 10 ** rng.uniform(-0.4, 0.4),
                       planet_mass=spec['planet_mass'] * rng.uniform(0.8, 1.25))
            rp2 = dict(spec=spec, updated=new)
            try:
                with np.errstate(all='ignore'):
                    for k_, v_ in new.items():
                        model[k_] = v_
                    model.initialize_profiles()
                    prof2 = model.generate_profiles()
                o2 = snapshot(model, n, prof2, K)
            except Exception as e:
                ctx.violation('impl-raises:update', 'model raised %r after updating %r' % (e, new), replay=rp2)
                continue
            if not np.all(np.isfinite(o2['zb'])) or o2['zb'][-1] > 50 * o2['R']:
                ctx.count('skipped:runaway-atmosphere')
                continue
            oracle(ctx, o2, rp2)
            e1.append('run_levels %s %s %s' % (C.iv(math.log10(new['atm_min_pressure'])), C.iv(math.log10(new['atm_max_pressure'])), C.natlit(n)))
            m1.append((o2, rp2))
            e2.append('run_scale %s %s %s %s %s %s %s' % (C.iv(o2['GM']), C.iv(o2['R']), C.iv(o2['k']), C.ivlist(o2['T']),
                                                         C.ivlist(o2['mu']), C.ivlist(o2['levels']), C.ivlist(o2['P'])))
            m2.append((o2, rp2, spec))
            ctx.count('re-evaluated after update')
    # direct calls on arbitrary decreasing levels
    e3, m3 = [], []
    for i in range(ctx.n(40, 300)):
        n = rng.choice([1, 2, 3, 5, 8, 13])
        lv = 10 ** (rng.uniform(3, 7) - np.concatenate([[0], np.cumsum([rng.uniform(0.01, 2) for _ in range(n)])]))
        T = np.array([rng.uniform(50, 4000) for _ in range(n)])
        if rng.random() < 0.35:      # whole-number temperatures given as an integer array
            T = np.array([rng.randrange(50, 4000) for _ in range(n)])
        mu = np.array([rng.uniform(1, 50) for _ in range(n)]) * float(K.AMU)
        pl = Planet(planet_mass=10 ** rng.uniform(-2, 1.3), planet_radius=10 ** rng.uniform(-1, 0.5))
        with np.errstate(all='ignore'):
            z, H, g, dz = pl.calculate_scale_properties(T, lv, mu)
        o = dict(zb=np.array(z), H=np.array(H), g=np.array(g), dz=np.array(dz))
        if not np.all(np.isfinite(o['zb'])) or o['zb'][-1] > 50 * pl.fullRadius:
            ctx.count('skipped:runaway-atmosphere')
            continue
        rp = dict(levels=lv, T=T, mu=mu, mass=pl.fullMass, radius=pl.fullRadius)
        if len(z) != n + 1 or len(H) != n or len(g) != n or len(dz) != n or z[0] != 0 or np.any(np.diff(z) <= 0):
            ctx.violation('structure:direct', 'calculate_scale_properties: wrong lengths or altitude not increasing '
                          'from zero', replay=rp)
        e3.append('run_scale %s %s %s %s %s %s %s' % (C.iv(float(K.G) * pl.fullMass), C.iv(pl.fullRadius),
                                                     C.iv(float(K.KBOLTZ)), C.ivlist(T), C.ivlist(mu), C.ivlist(lv),
                                                     C.ivlist(lv[:-1])))
        m3.append((o, rp))
        ctx.count('direct')
    array_pressure(ctx, rng)
    for (o, rp), r in zip(m1, C.run_cases('C11_lv', HEADER, e1, shard=25)):
        bad = cmp_list('levels', o['levels'], r[0]) or cmp_list('layer pressure', o['P'], r[1])
        ctx.case(('levels', o['n'], float(o['levels'][0]), float(o['levels'][-1])), nontrivial=o['n'] >= 2)
        if bad:
            ctx.violation('correspondence:levels', 'model/implementation disagree: ' + bad, replay=rp, no_input=True)
        else:
            ctx.validated()
    for (o, rp, spec), r in zip(m2, C.run_cases('C11_sc', HEADER, e2, shard=10)):
        bad = (cmp_list('altitude_boundaries', o['zb'], r[0], abs_=1e-9 * o['R']) or
               cmp_list('scaleheight', o['H'], r[1]) or
               cmp_list('gravity', o['g'], r[2]) or cmp_list('deltaz', o['dz'], r[3]) or
               cmp_list('density', o['rho'], r[4]))
        ctx.case(('scale', o['n'], float(o['zb'][-1])), nontrivial=o['n'] >= 2 and len(spec['T']) > 1,
                 sample=dict(nlayers=o['n'], T=o['T'][:3], mu=o['mu'][:3], z_top=o['zb'][-1], g0=o['g'][0]))
        if bad:
            ctx.violation('correspondence:hydrostatic', 'model/implementation disagree: ' + bad, replay=rp,
                          no_input=not any(v['signature'].startswith('structure') for v in ctx.violations))
        else:
            ctx.validated()
    for (o, rp), r in zip(m3, C.run_cases('C11_dc', HEADER, e3, shard=20)):
        bad = (cmp_list('z', o['zb'], r[0], abs_=1e-6) or cmp_list('H', o['H'], r[1]) or
               cmp_list('g', o['g'], r[2]) or cmp_list('dz', o['dz'], r[3]))
        ctx.case(('direct', len(o['H']), float(o['zb'][-1])), nontrivial=len(o['H']) >= 2)
        if bad:
            ctx.violation('correspondence:scale_properties', 'model/implementation disagree: ' + bad, replay=rp,
                          no_input=True)
        else:
            ctx.validated()


def array_pressure(ctx, rng):
    from taurex.data.profiles.pressure.arraypressure import ArrayPressureProfile
    a_exprs, a_meta = [], []
    for i in range(ctx.n(30, 200)):
        n = rng.choice([2, 3, 5, 9, 20])
        # adjacent spacings within a factor 2.8 of each other (the theorem's premise is a factor 3): for wilder grids the centred-difference level
        # reconstruction of ArrayPressureProfile is not monotone and the property's premise (decreasing levels)
        # does not apply
        P = 10 ** (rng.uniform(3, 7) - np.cumsum([rng.uniform(0.25, 0.7) for _ in range(n)]))
        # a table given top-down with reverse=True is the same profile
        rev = rng.random() < 0.4
        ap = ArrayPressureProfile(P[::-1].copy(), reverse=True) if rev else ArrayPressureProfile(P)
        ap.compute_pressure_profile()
        ctx.count('array_pressure:reverse' if rev else 'array_pressure:as given')
        lv = np.array(ap.pressure_profile_levels)
        ctx.case(('array', n, float(P[0])))
        # the property asks for n+1 strictly decreasing levels around n layers (bracketing of every layer
        # pressure holds for regular spacing only and is not demanded)
        ok = (len(lv) == n + 1 and np.all(np.diff(lv) < 0) and lv[0] > P[0] and lv[-1] < P[-1]
              and np.array_equal(ap.profile, P) and ap.nLayers == n)
        # under the premise of C11_array_levels_bracket (strictly decreasing, upper log-spacing < 3 x lower) every layer
        # pressure lies strictly between its two levels; the premise is evaluated on the instance
        lp = np.log10(P)
        d = -np.diff(lp)
        premise = bool(np.all(d > 0) and (len(d) < 2 or np.all(d[1:] < 3 * d[:-1] * (1 - 1e-9))))
        ctx.count('array_pressure:premise holds' if premise else 'array_pressure:premise fails')
        if ok and premise and len(lv) == n + 1 and not (np.all(lv[1:] < P) and np.all(P < lv[:-1])):
            ok = False
        if ok:
            ctx.validated()
        else:
            ctx.violation('structure:array-pressure', 'array pressure profile: levels %r are not n+1 strictly decreasing values '
                          'around the %d layer pressures %r' % (lv, n, P), replay=dict(P=P))
        ctx.count('array_pressure')
        if len(lv) == n + 1 and np.all(lv > 0):
            a_exprs.append('run_array_levels %s' % C.qlist(lp.tolist()))
            a_meta.append(dict(P=P, loglv=np.log10(lv)))
    for mt, r in zip(a_meta, C.run_cases('C11_arr', C.HEADER_Q + 'From TV Require Import Model_C11a Exec_C11a.\n', a_exprs, shard=40)):
        mv = np.array([float(C.q_out(x)) for x in r])
        ctx.case(('array-model', len(mt['P']), float(mt['P'][0])), nontrivial=len(mt['P']) >= 3)
        if mv.shape != mt['loglv'].shape or not np.allclose(mv, mt['loglv'], rtol=0, atol=1e-11):
            ctx.violation('correspondence:array-pressure', 'array pressure profile: log10 of the levels %r, model %r'
                          % (mt['loglv'], mv), replay=dict(P=mt['P']), no_input=True)
        else:
            ctx.validated()


def replay(ctx, obj):
    ctx.notes.append('replay re-runs the whole deterministic check with the stored seed')
    run(ctx)
