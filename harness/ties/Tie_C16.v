(* Tie_C16.v — wnwidth_to_wlwidth as regenerated from taurex/util/util.py is the pointwise width conversion that the
   spectrum-dictionary model applies to (centre, width) pairs. *)
From Coq Require Import Reals Lra List.
From TV Require Import Num ListNum Model_C16.
Import ListNotations.
Local Open Scope R_scope.
(* GENERATED *)

Lemma tie_wlwidth_pointwise : forall g w : R, g <> 0 ->
  @wlwidth_of R RNum [g] [w] = [gen_wnwidth_to_wlwidth g w].
Proof. intros. unfold wlwidth_of, gen_wnwidth_to_wlwidth, Model_C16.c10000. cbn [map2]. rnum.
  first [reflexivity | (f_equal; field; assumption)]. Qed.
