(* Tie_C18.v — OnlineVariance.update (taurex/util/math.py), regenerated from the method's source in block mode: the
   attributes it reads are the arguments, the attributes it writes the result. It is the model's West step ov_update,
   for all real arguments (the `if self.mean is None` block initialises the state the model starts from; the
   ZeroDivisionError handler is the case wcount + weight = 0, excluded here). *)
From Coq Require Import Reals Lra.
From TV Require Import Num ListNum Model_C18.
Local Open Scope R_scope.
(* GENERATED *)

Lemma tie_ov_update : forall (n : nat) (count wcount wcount2 mean0 M2 value weight : R),
  wcount + weight <> 0 ->
  let s' := @ov_update R RNum {| cnt := n; wc := wcount; mean := mean0; m2 := M2 |} (value, weight) in
  gen_ov_update count wcount wcount2 mean0 M2 value weight = (count + 1, wc s', mean s', m2 s') /\ cnt s' = S n.
Proof. intros. unfold gen_ov_update, ov_update in *. subst s'. cbn. rnum. split; reflexivity. Qed.
