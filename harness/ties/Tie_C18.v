(* Tie_C18.v — OnlineVariance.update (taurex/util/math.py), regenerated from the method's source in block mode: the
   attributes it reads are the arguments, the attributes it writes the result. It is the model's West step ov_update,
   for all real arguments (the `if self.mean is None` block initialises the state the model starts from; the
   ZeroDivisionError handler is the case wcount + weight = 0, excluded here). *)
From Coq Require Import Reals Lra.
From Coq Require Import List Lia.
From TV Require Import Num ListNum Model_C18 Proofs_C18.
Import ListNotations.
Local Open Scope R_scope.
(* GENERATED *)

Lemma tie_ov_update : forall (n : nat) (count wcount wcount2 mean0 M2 value weight : R),
  wcount + weight <> 0 ->
  let s' := @ov_update R RNum {| cnt := n; wc := wcount; mean := mean0; m2 := M2 |} (value, weight) in
  gen_ov_update count wcount wcount2 mean0 M2 value weight = (count + 1, wc s', mean s', m2 s') /\ cnt s' = S n.
Proof. intros. unfold gen_ov_update, ov_update in *. subst s'. cbn. rnum. split; reflexivity. Qed.


(* The update iterated over a whole sample list, as `for value, weight in samples: ov.update(value, weight)` does,
   from the state reset() / the first-call initialisation leaves (count 0, sum of weights 0, mean 0, M2 0): for EVERY
   list of samples with positive weights the code's state is the model's, hence (C18_streaming_is_twopass) its mean and
   M2 are the two-pass weighted mean and sum of squared deviations. *)
Definition code_step (st : R * R * R * R) (xw : R * R) : R * R * R * R :=
  match st with (c, w, m, q) => gen_ov_update c w 0 m q (fst xw) (snd xw) end.
Definition code_run (l : list (R * R)) : R * R * R * R := fold_left code_step l (0, 0, 0, 0).

Lemma tie_ov_fold : forall (l : list (R * R)) (s : ov) (c : R),
  pos_weights l -> 0 <= wc s ->
  fold_left code_step l (c, wc s, mean s, m2 s) =
  (c + INR (length l), wc (fold_left (@ov_update R RNum) l s), mean (fold_left (@ov_update R RNum) l s),
   m2 (fold_left (@ov_update R RNum) l s)).
Proof.
  induction l as [|[x w] l IH]; intros s c Hp Hw.
  - cbn. f_equal. f_equal. f_equal. lra.
  - inversion Hp as [|p q Hpw Hpl]; subst. cbn [snd] in Hpw.
    cbn [fold_left]. unfold code_step at 2. cbn [fst snd].
    destruct (tie_ov_update (cnt s) c (wc s) 0 (mean s) (m2 s) x w) as [E _]; [lra|].
    destruct s as [n0' wc0 mean0 m20]. cbn [cnt wc mean m2] in *. rewrite E.
    rewrite (IH _ (c + 1) Hpl).
    + cbn [length]. rewrite S_INR. f_equal. f_equal. f_equal. lra.
    + unfold ov_update. cbn [wc]. rnum. lra.
Qed.

Lemma tie_code_streaming_is_twopass : forall (l : list (R * R)), l <> [] -> pos_weights l ->
  match code_run l with
  | (c, w, m, q) => c = INR (length l) /\ m = @twopass_mean R RNum l /\ q = @twopass_m2 R RNum l
  end.
Proof.
  intros l Hne Hp. unfold code_run.
  pose proof (tie_ov_fold l (@ov_init R RNum) 0 Hp) as H. cbn [ov_init wc mean m2] in H.
  change (@n0 R RNum) with 0 in H. rewrite H by lra.
  destruct (online_is_twopass l Hne Hp) as [Hm Hq]. unfold ov_run in *.
  split; [lra|]. split; assumption.
Qed.
