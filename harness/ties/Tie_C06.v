(* Tie_C06.v — the likelihood as the three sampler callbacks compute it, regenerated from the source in block mode:
   Optimizer.chisq_trans from `res = (data - model)/sigma` on (the all-NaN branch is the invalid-model case, which the
   model treats separately), and the closures nestle_loglike / multinest_loglike / polychord_loglike inside the three
   compute_fit methods (with the enclosing `sqrtpi = np.sqrt(2*np.pi)`; the value of self.chisq_trans(...) is a
   parameter). np.sum / np.nansum become a summand definition plus a parameter standing for the sum. With the sums
   over the observation's bins put back, all three callbacks are the model's gauss_loglike, for all data, error bars and
   binned models of equal length. *)
From Coq Require Import Reals Lra List Lia.
From TV Require Import Num ListNum Model_C06.
Import ListNotations.
Local Open Scope R_scope.
(* GENERATED *)

Lemma tie_chisq_summand : forall d m s : R, gen_chisq_summand1 d m s = ((d - m) / s) * ((d - m) / s).
Proof. intros. unfold gen_chisq_summand1. reflexivity. Qed.

Lemma tie_chisq : forall (data sig model : list R) (d0 m0 s0 : R),
  @chisq R RTNum data sig model =
  gen_chisq (nsum (map2 (fun ds m => gen_chisq_summand1 (fst ds) m (snd ds)) (combine data sig) model)) d0 m0 s0.
Proof. intros. unfold chisq, gen_chisq, gen_chisq_summand1. rnum. reflexivity. Qed.

Lemma tie_loglike_three_wrappers : forall (s c x : R),
  gen_nestle_loglike x s c = gen_multinest_loglike x s c /\ gen_nestle_loglike x s c = gen_polychord_loglike x s c /\
  gen_nestle_loglike_summand1 s c = gen_multinest_loglike_summand1 s c /\
  gen_nestle_loglike_summand1 s c = gen_polychord_loglike_summand1 s c.
Proof. intros. repeat split; reflexivity. Qed.

Lemma tie_gauss_loglike : forall (data sig model : list R) (s0 c0 : R),
  @gauss_loglike R RTNum data sig model =
  gen_nestle_loglike (nsum (map (fun s => gen_nestle_loglike_summand1 s c0) sig)) s0 (@chisq R RTNum data sig model).
Proof.
  intros. unfold gauss_loglike, gen_nestle_loglike, gen_nestle_loglike_summand1. rnum.
  first [reflexivity | (f_equal; field) | field].
Qed.
