(* Tie_C02.v — the Planck function as regenerated from taurex/util/emission.py (black_body through the module's alias,
   with the helper functions it calls; PI, PLANCK, SPDLIGT, KBOLTZ become parameters; decimal literals are read as
   written) is the model's planck, for all real arguments. *)
From Coq Require Import Reals Lra.
From TV Require Import Num ListNum Model_C01 Model_C02.
Local Open Scope R_scope.
(* GENERATED *)

Lemma tie_black_body : forall h c k wn temp : R,
  gen_black_body PI h c k wn temp = @planck R RTNum h c k wn temp.
Proof. intros. unfold gen_black_body, gen_black_body_vec, gen_convert_lamb, planck, micro. rnum.
  first [reflexivity | (f_equal; f_equal; field)]. Qed.
