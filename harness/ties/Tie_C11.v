(* Tie_C11.v — gravity at height and one pass of the altitude loop of BasePlanet.calculate_scale_properties
   (taurex/data/planet.py), regenerated from the source in block mode (array elements addressed through the loop
   variable are arguments or results; the call self.gravity_at_height is a function parameter, instantiated here with
   the regenerated method). One pass of the loop takes the scale height of layer i-1 to its thickness, the altitude of
   the next boundary, and gravity and scale height there: these are exactly two consecutive rows of the model's
   hydrostatic recurrence `layers`. *)
From Coq Require Import Reals Lra List.
From TV Require Import Num ListNum Model_C11.
Import ListNotations.
Local Open Scope R_scope.
(* GENERATED *)

Lemma tie_gravity_at_height : forall G M Rp h : R,
  gen_gravity_at_height G M Rp h = G * M / ((Rp + h) * (Rp + h)).
Proof. intros. unfold gen_gravity_at_height. reflexivity. Qed.

Lemma tie_scale_step : forall (G M Rp k z Pj P1 P2 t t2 m m2 : R) (Prest Ts ms : list R),
  match fst (@layers R RTNum (G * M) Rp k z Pj (P1 :: P2 :: Prest) (t :: t2 :: Ts) (m :: m2 :: ms)) with
  | (z0, H0, g0, dz0) :: (z1, H1, g1, dz1) :: _ =>
      gen_scale_step (gen_gravity_at_height G M Rp) k H0 P1 Pj z0 t2 m2 = (dz0, z1, g1, H1)
  | _ => False
  end.
Proof.
  intros. cbn [layers].
  destruct (layers (G * M) Rp k _ P2 Prest Ts ms) as [rows zf] eqn:E.
  cbn. unfold gen_scale_step, gen_gravity_at_height. rnum. reflexivity.
Qed.
