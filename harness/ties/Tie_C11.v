(* Tie_C11.v — gravity at height and one pass of the altitude loop of BasePlanet.calculate_scale_properties
   (taurex/data/planet.py), regenerated from the source in block mode (array elements addressed through the loop
   variable are arguments or results; the call self.gravity_at_height is a function parameter, instantiated here with
   the regenerated method). One pass of the loop takes the scale height of layer i-1 to its thickness, the altitude of
   the next boundary, and gravity and scale height there: these are exactly two consecutive rows of the model's
   hydrostatic recurrence `layers`. *)
From Coq Require Import Reals Lra List.
From Coq Require Import Sorted Lia.
From TV Require Import Num ListNum Model_C11 Proofs_C11.
Import ListNotations.
Local Open Scope R_scope.
(* GENERATED *)

Lemma tie_gravity_at_height : forall G M Rp h : R,
  gen_gravity_at_height G M Rp h = G * M / ((Rp + h) * (Rp + h)).
Proof. intros. unfold gen_gravity_at_height. reflexivity. Qed.

Lemma tie_scale_step : forall (G M Rp k z Pj P1 P2 t t2 m m2 : R) (Prest Ts ms : list R),
  match fst (@layers R RTNum (G * M) Rp k z Pj (P1 :: P2 :: Prest) (t :: t2 :: Ts) (m :: m2 :: ms)) with
  | (z0, H0, g0, dz0) :: (z1, H1, g1, dz1) :: _ =>
      gen_scale_step (gen_gravity_at_height G M Rp) k H0 P1 Pj z0 t2 m2 = (dz0, z1, g1, H1)
  | _ => False
  end.
Proof.
  intros. cbn [layers].
  destruct (layers (G * M) Rp k _ P2 Prest Ts ms) as [rows zf] eqn:E.
  cbn. unfold gen_scale_step, gen_gravity_at_height. rnum. reflexivity.
Qed.

(* The altitude loop as Python runs it: the state after pass i-1 is (z, H, g) of layer i-1 and the pressure of its lower
   boundary; pass i (i < nlayers) applies the regenerated body; the last pass (i = nlayers) runs only the two statements
   before `if i < nlayers:` — its gravity and scale-height results are not computed, here they are discarded. Started as
   the code starts (z = 0, g[0] = surface gravity, H[0] = k T[0] / (mu[0] g[0])) the loop yields, for ANY number of layers,
   exactly the rows and the top altitude of the model's recursion `layers` that the theorems of Props_C11.v are about. *)
Fixpoint altitude_loop (step : R -> R -> R -> R -> R -> R -> R * R * R * R) (z H g Pprev : R) (Pnext Ts ms : list R)
  : list (R * R * R * R) * R :=
  match Pnext with
  | [] => ([], z)
  | P1 :: Prest =>
      match Ts, ms with
      | t :: Ts', m :: ms' =>
          match step H P1 Pprev z t m with
          | (dz, z1, g1, H1) =>
              match altitude_loop step z1 H1 g1 P1 Prest Ts' ms' with
              | (rows, zf) => ((z, H, g, dz) :: rows, zf)
              end
          end
      | _, _ =>
          match step H P1 Pprev z 0 0 with
          | (dz, z1, _, _) => ([(z, H, g, dz)], z1)
          end
      end
  end.

Lemma tie_altitude_loop : forall (G M Rp k : R) (Pnext Ts ms : list R) (z Pj t m : R),
  length Ts = length ms -> length Pnext = S (length Ts) ->
  altitude_loop (gen_scale_step (gen_gravity_at_height G M Rp) k)
                z (k * t / (m * (G * M / ((Rp + z) * (Rp + z))))) (G * M / ((Rp + z) * (Rp + z))) Pj Pnext Ts ms
  = @layers R RTNum (G * M) Rp k z Pj Pnext (t :: Ts) (m :: ms).
Proof.
  intros G M Rp k Pnext. induction Pnext as [|P1 Prest IH]; intros Ts ms z Pj t m Hlen Hn.
  - discriminate Hn.
  - destruct Ts as [|t2 Ts']; destruct ms as [|m2 ms']; try discriminate Hlen.
    + (* last layer *)
      destruct Prest as [|P2 Prest']; [|discriminate Hn].
      cbn [altitude_loop layers]. unfold gen_scale_step. rnum. reflexivity.
    + cbn [altitude_loop]. unfold gen_scale_step at 1. unfold gen_gravity_at_height at 1. cbn beta iota zeta.
      cbn [length] in Hlen, Hn. injection Hlen as Hlen. injection Hn as Hn.
      specialize (IH Ts' ms' (z + -1 * (k * t / (m * (G * M / ((Rp + z) * (Rp + z))))) * ln (P1 / Pj)) P1 t2 m2 Hlen Hn).
      cbn [layers]. rnum.
      match goal with |- context [altitude_loop ?s ?a ?b ?c ?d ?e ?f ?g] =>
        replace (altitude_loop s a b c d e f g) with
          (@layers R RTNum (G * M) Rp k (z + -1 * (k * t / (m * (G * M / ((Rp + z) * (Rp + z))))) * ln (P1 / Pj)) P1 Prest (t2 :: Ts') (m2 :: ms'))
      end.
      all: first [reflexivity | (rewrite <- IH; reflexivity)].
Qed.


(* Consequently, for ANY strictly decreasing positive level pressures and positive temperatures and molecular weights,
   the loop as the code runs it yields one row per layer and strictly increasing altitude boundaries starting at 0:
   C11_hydrostatic, C11_one_row_per_layer and C11_altitudes_increase carried over to the regenerated source. *)
Lemma tie_code_altitudes_increase : forall (G M Rp k : R), 0 < G * M -> 0 < Rp -> 0 < k ->
  forall (t m : R) (Ts ms : list R) (P0 : R) (Prest : list R),
  decreasing_pos P0 Prest -> length (t :: Ts) = length Prest -> length (m :: ms) = length Prest ->
  Forall (fun x => 0 < x) (t :: Ts) -> Forall (fun x => 0 < x) (m :: ms) ->
  let o := altitude_loop (gen_scale_step (gen_gravity_at_height G M Rp) k)
                         0 (k * t / (m * (G * M / ((Rp + 0) * (Rp + 0))))) (G * M / ((Rp + 0) * (Rp + 0))) P0 Prest Ts ms in
  length (fst o) = length Prest /\
  StronglySorted Rlt (@altitude_boundaries R o) /\ hd 0 (@altitude_boundaries R o) = 0.
Proof.
  intros G M Rp k HGM HRp Hk t m Ts ms P0 Prest Hdec HlT Hlm HT Hm o.
  assert (Ho : o = @layers R RTNum (G * M) Rp k 0 P0 Prest (t :: Ts) (m :: ms)).
  { unfold o. apply tie_altitude_loop; cbn [length] in *; lia. }
  pose proof (scale_properties_hydrostatic (G * M) Rp k HGM HRp Hk (t :: Ts) (m :: ms) P0 Prest Hdec HlT Hlm HT Hm) as Hh.
  cbn zeta in Hh. unfold scale_properties in Hh.
  assert (Hh' : hydro_ok (G * M) Rp k 0 P0 Prest (t :: Ts) (m :: ms) (fst o) (snd o)) by (rewrite Ho; exact Hh).
  clear Hh Ho. destruct o as [rows zf]. cbn [fst snd] in Hh'. rename Hh' into Hh.
  split; [exact (hydro_ok_length _ _ _ _ _ _ _ _ _ _ Hh)|].
  destruct (hydro_ok_altitudes _ _ _ _ _ _ _ _ _ _ Hh) as (Hs & Hhd & _). split; assumption.
Qed.

(* The whole of calculate_scale_properties up to the unit factor of its return statement: the statements before the
   loop (g[0] = self.gravity, H[0] = k T[0] / (mu[0] g[0]); the property `gravity` regenerated as well) give the state
   the loop starts from, and the loop run from there is the model's scale_properties. *)
Lemma tie_surface_gravity : forall G M Rp : R, gen_surface_gravity G M Rp = gen_gravity_at_height G M Rp 0.
Proof. intros. unfold gen_surface_gravity, gen_gravity_at_height. rewrite Rplus_0_r. reflexivity. Qed.

Lemma tie_scale_properties : forall (G M Rp k t m : R) (Ts ms : list R) (P0 : R) (Prest : list R),
  length Ts = length ms -> length Prest = S (length Ts) ->
  altitude_loop (gen_scale_step (gen_gravity_at_height G M Rp) k) 0
     (snd (gen_scale_init k (gen_surface_gravity G M Rp) t m)) (fst (gen_scale_init k (gen_surface_gravity G M Rp) t m))
     P0 Prest Ts ms
  = @scale_properties R RTNum (G * M) Rp k (t :: Ts) (m :: ms) (P0 :: Prest).
Proof.
  intros G M Rp k t m Ts ms P0 Prest H1 H2. unfold gen_scale_init, gen_surface_gravity. cbn [fst snd].
  replace (G * M / (Rp * Rp)) with (G * M / ((Rp + 0) * (Rp + 0))) by (rewrite Rplus_0_r; reflexivity).
  unfold scale_properties. exact (tie_altitude_loop G M Rp k Prest Ts ms 0 P0 t m H1 H2).
Qed.
