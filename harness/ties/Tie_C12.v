(* Tie_C12.v — the Guillot (2010) temperature formula (Guillot2010.profile, from `planet_grav = ...` to `T4 = ...`,
   with the nested function eta), regenerated from the source in block mode, is the model's guillot_T4 for all real
   arguments and ANY function standing for scipy.special.expn: the model takes the two values E2(gamma_i tau) as
   inputs, and this lemma shows they enter the code's formula exactly where the model puts them. *)
From Coq Require Import Reals Lra.
From TV Require Import Num ListNum Model_C12.
Local Open Scope R_scope.
(* GENERATED *)

Lemma tie_guillot_T4 : forall (expn : R -> R -> R) (kv1 kir kv2 P grav Tint Tirr alpha : R),
  gen_guillot_T4 expn grav kv1 kir kv2 P Tint Tirr alpha =
  @guillot_T4 R RTNum kir kv1 kv2 alpha Tirr Tint grav P
     (expn 2 (kv1 / kir * (kir * P / grav))) (expn 2 (kv2 / kir * (kir * P / grav))).
Proof. intros. unfold gen_guillot_T4, gen_eta, guillot_T4, eta. rnum. reflexivity. Qed.
