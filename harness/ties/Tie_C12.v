(* Tie_C12.v — the Guillot (2010) temperature formula (Guillot2010.profile, from `planet_grav = ...` to `T4 = ...`,
   with the nested function eta), regenerated from the source in block mode, is the model's guillot_T4 for all real
   arguments and ANY function standing for scipy.special.expn: the model takes the two values E2(gamma_i tau) as
   inputs, and this lemma shows they enter the code's formula exactly where the model puts them. *)
From Coq Require Import Reals Lra.
From TV Require Import Num ListNum Model_C12 Proofs_C12.
Local Open Scope R_scope.
(* GENERATED *)

Lemma tie_guillot_T4 : forall (expn : R -> R -> R) (kv1 kir kv2 P grav Tint Tirr alpha : R),
  gen_guillot_T4 expn grav kv1 kir kv2 P Tint Tirr alpha =
  @guillot_T4 R RTNum kir kv1 kv2 alpha Tirr Tint grav P
     (expn 2 (kv1 / kir * (kir * P / grav))) (expn 2 (kv2 / kir * (kir * P / grav))).
Proof. intros. unfold gen_guillot_T4, gen_eta, guillot_T4, eta. rnum. reflexivity. Qed.


(* Consequently the T^4 the code computes is positive (so its fourth root is a finite positive temperature) for physical
   parameters, for ANY function expn that satisfies the classical bound 0 <= E2(x) <= exp(-x)/(1+x) at the two arguments
   the code passes to it: C12_guillot_positive carried over to the regenerated source. *)
Lemma tie_code_guillot_positive : forall (expn : R -> R -> R) (kv1 kir kv2 P grav Tint Tirr alpha : R),
  0 < kir -> 0 < kv1 -> 0 < kv2 -> 0 < grav -> 0 <= P -> 0 <= alpha <= 1 -> 0 <= Tirr -> 0 <= Tint -> 0 < Tirr + Tint ->
  (forall g, g = kv1 / kir * (kir * P / grav) \/ g = kv2 / kir * (kir * P / grav) ->
             0 <= expn 2 g /\ expn 2 g * (1 + g) <= exp (- g)) ->
  0 < gen_guillot_T4 expn grav kv1 kir kv2 P Tint Tirr alpha.
Proof.
  intros expn kv1 kir kv2 P grav Tint Tirr alpha H1 H2 H3 H4 H5 H6 H7 H8 H9 HE.
  rewrite tie_guillot_T4.
  destruct (HE _ (or_introl eq_refl)) as [Ha Hb]. destruct (HE _ (or_intror eq_refl)) as [Hc Hd].
  apply guillot_T4_positive; assumption.
Qed.
