(* Tie_C17.v — wnwidth_to_wlwidth as regenerated from taurex/util/util.py is the width conversion of the model. *)
From Coq Require Import Reals Lra.
From TV Require Import Num ListNum Model_C05 Model_C17.
Local Open Scope R_scope.
(* GENERATED *)

Lemma tie_wnwidth_to_wlwidth : forall g w : R, g <> 0 ->
  gen_wnwidth_to_wlwidth g w = @conv_width R RNum g w.
Proof. intros. unfold gen_wnwidth_to_wlwidth, conv_width, Model_C17.c10000. rnum. first [reflexivity | field; assumption]. Qed.
