(* Tie_C19.v — the Lee et al. Mie cross-section (LeeMieContribution.prepare_each, from `wltmp = 10000/wngrid` to
   `sigma_mie = ...`), regenerated from the source in block mode, is the model's lee_sigma for all real arguments;
   x**c with a non-integer or negative constant c is read as exp(c ln x), which is how the model defines the power. *)
From Coq Require Import Reals Lra.
From TV Require Import Num ListNum Model_C19.
Local Open Scope R_scope.
(* GENERATED *)

Lemma tie_lee_sigma : forall wn a Q : R,
  gen_lee_sigma wn a Q = @lee_sigma R RTNum a Q wn.
Proof. intros. unfold gen_lee_sigma, lee_sigma, npow. rnum. first [reflexivity | (repeat f_equal; field)]. Qed.
