(* Tie_C19.v — the Lee et al. Mie cross-section (LeeMieContribution.prepare_each, from `wltmp = 10000/wngrid` to
   `sigma_mie = ...`), regenerated from the source in block mode, is the model's lee_sigma for all real arguments;
   x**c with a non-integer or negative constant c is read as exp(c ln x), which is how the model defines the power. *)
From Coq Require Import Reals Lra.
From TV Require Import Num ListNum Model_C19.
Local Open Scope R_scope.
(* GENERATED *)

Lemma tie_lee_sigma : forall wn a Q : R,
  gen_lee_sigma wn a Q = @lee_sigma R RTNum a Q wn.
Proof. intros. unfold gen_lee_sigma, lee_sigma, npow. rnum. first [reflexivity | (repeat f_equal; field)]. Qed.


(* Consequently the extinction the code computes inside the haze window is strictly positive and finite (a real number)
   for positive particle size, Q and wavenumber: together with C19_lee_layer (zero outside the window) the haze acts
   inside its window and only there. *)
Lemma tie_code_lee_positive : forall wn a Q : R, 0 < wn -> 0 < a -> 0 < Q -> 0 < gen_lee_sigma wn a Q.
Proof.
  intros wn a Q Hw Ha HQ. unfold gen_lee_sigma. cbv zeta.
  assert (Hpi := PI_RGT_0).
  apply Rmult_lt_0_compat.
  - apply Rmult_lt_0_compat; [|exact Hpi].
    apply Rdiv_lt_0_compat; [lra|].
    apply Rplus_lt_0_compat; [apply Rmult_lt_0_compat; [exact HQ|apply exp_pos]|apply exp_pos].
  - apply Rmult_lt_0_compat; nra.
Qed.
