(* Tie_C01.v — TransmissionModel.compute_absorption (taurex/model/transmission.py), regenerated from the method's
   source in block mode: `x[:, None]` is broadcasting, `np.sum(..., axis=0)` over the layer axis becomes a summand
   definition plus a parameter standing for the sum. The summand is the model's per-layer term, and with the sum of the
   summands over the layers the returned depth is the model's depth_at — the documented integral
   (Rp^2 + 2 sum_l (Rp + z_l)(1 - exp(-tau_l)) dz_l) / Rs^2 — for all real arguments and any number of layers. *)
From Coq Require Import Reals Lra List Lia.
From TV Require Import Num ListNum ListNumR Model_C01 Proofs_C01.
Import ListNotations.
Local Open Scope R_scope.
(* GENERATED *)

Lemma tie_depth_summand : forall tau z Rp Rs dz : R,
  gen_depth_summand1 tau z Rp Rs dz = (Rp + z) * (1 - exp (- tau)) * dz * 2.
Proof. intros. unfold gen_depth_summand1. reflexivity. Qed.

Lemma tie_depth : forall (Rp Rs : R) (z dz : list R) (ts tr : list (list R)) (w : nat) (t0 z0 d0 : R),
  (forall l, (l < length z)%nat -> nth_d (nth l tr []) w = exp (- nth_d (nth l ts []) w)) ->
  @depth_at R RTNum Rp Rs z dz tr w =
  fst (gen_depth
         (nsum (map (fun l => gen_depth_summand1 (nth_d (nth l ts []) w) (nth_d z l) Rp Rs (nth_d dz l))
                    (seq 0 (length z))))
         t0 z0 Rp Rs d0).
Proof.
  intros Rp Rs z dz ts tr w t0 z0 d0 H. unfold depth_at, gen_depth. cbn [fst]. rnum.
  f_equal. f_equal. f_equal. apply map_ext_in. intros l Hl. apply in_seq in Hl.
  rewrite H by lia. unfold gen_depth_summand1. rnum. reflexivity.
Qed.


(* Consequently the value the code returns lies between the bare-planet depth and the depth of an atmosphere opaque to
   its top, whatever the (non-negative) optical depths and the number of layers: C01_depth_bounds carried over to the
   regenerated source. *)
Lemma tie_code_depth_bounds : forall (Rp Rs : R) (z dz : list R) (ts tr : list (list R)) (w : nat) (t0 z0 d0 : R),
  0 < Rs -> 0 <= Rp -> nonneg_list z -> nonneg_list dz ->
  (forall l, (l < length z)%nat -> nth_d (nth l tr []) w = exp (- nth_d (nth l ts []) w)) ->
  (forall l, (l < length z)%nat -> 0 <= nth_d (nth l ts []) w) ->
  (Rp / Rs) ^ 2
  <= fst (gen_depth
         (nsum (map (fun l => gen_depth_summand1 (nth_d (nth l ts []) w) (nth_d z l) Rp Rs (nth_d dz l))
                    (seq 0 (length z))))
         t0 z0 Rp Rs d0)
  <= (Rp * Rp + Rsum (map (fun l => (Rp + nth_d z l) * nth_d dz l * 2) (seq 0 (length z)))) / (Rs * Rs).
Proof.
  intros Rp Rs z dz ts tr w t0 z0 d0 HRs HRp Hz Hdz H Hpos.
  rewrite <- (tie_depth Rp Rs z dz ts tr w t0 z0 d0 H).
  apply depth_bounds; try assumption.
  intros l Hl. rewrite (H l Hl). unfold unit_interval. split.
  - left. apply exp_pos.
  - rewrite <- exp_0. specialize (Hpos l Hl).
    destruct (Req_dec (nth_d (nth l ts []) w) 0) as [E|E].
    + rewrite E, Ropp_0. lra.
    + left. apply exp_increasing. lra.
Qed.
