(* Tie_C01.v — TransmissionModel.compute_absorption (taurex/model/transmission.py), regenerated from the method's
   source in block mode: `x[:, None]` is broadcasting, `np.sum(..., axis=0)` over the layer axis becomes a summand
   definition plus a parameter standing for the sum. The summand is the model's per-layer term, and with the sum of the
   summands over the layers the returned depth is the model's depth_at — the documented integral
   (Rp^2 + 2 sum_l (Rp + z_l)(1 - exp(-tau_l)) dz_l) / Rs^2 — for all real arguments and any number of layers. *)
From Coq Require Import Reals Lra List Lia.
From TV Require Import Num ListNum Model_C01.
Import ListNotations.
Local Open Scope R_scope.
(* GENERATED *)

Lemma tie_depth_summand : forall tau z Rp Rs dz : R,
  gen_depth_summand1 tau z Rp Rs dz = (Rp + z) * (1 - exp (- tau)) * dz * 2.
Proof. intros. unfold gen_depth_summand1. reflexivity. Qed.

Lemma tie_depth : forall (Rp Rs : R) (z dz : list R) (ts tr : list (list R)) (w : nat) (t0 z0 d0 : R),
  (forall l, (l < length z)%nat -> nth_d (nth l tr []) w = exp (- nth_d (nth l ts []) w)) ->
  @depth_at R RTNum Rp Rs z dz tr w =
  fst (gen_depth
         (nsum (map (fun l => gen_depth_summand1 (nth_d (nth l ts []) w) (nth_d z l) Rp Rs (nth_d dz l))
                    (seq 0 (length z))))
         t0 z0 Rp Rs d0).
Proof.
  intros Rp Rs z dz ts tr w t0 z0 d0 H. unfold depth_at, gen_depth. cbn [fst]. rnum.
  f_equal. f_equal. f_equal. apply map_ext_in. intros l Hl. apply in_seq in Hl.
  rewrite H by lia. unfold gen_depth_summand1. rnum. reflexivity.
Qed.
