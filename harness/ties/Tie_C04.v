(* Tie_C04.v — the interpolation kernels as regenerated from taurex/util/math.py (through the module's alias table)
   equal the model's kernels for all real arguments. The definitions between the markers are written by
   harness/pytranslate.py on every run; everything else is fixed text. *)
From Coq Require Import Reals Lra.
From TV Require Import Num ListNum Model_C04.
Local Open Scope R_scope.
(* GENERATED *)

Lemma tie_interp_lin_only : forall x11 x12 P Pmin Pmax : R, Pmax - Pmin <> 0 ->
  gen_interp_lin_only x11 x12 P Pmin Pmax = @k_lin R RNum x11 x12 P Pmin Pmax.
Proof. intros. unfold gen_interp_lin_only, k_lin. rnum. first [reflexivity | field; assumption]. Qed.

Lemma tie_intepr_bilin : forall x11 x12 x21 x22 Tv Tmin Tmax P Pmin Pmax : R, Pmax - Pmin <> 0 -> Tmax - Tmin <> 0 ->
  gen_intepr_bilin x11 x12 x21 x22 Tv Tmin Tmax P Pmin Pmax = @k_bilin R RNum x11 x12 x21 x22 Tv Tmin Tmax P Pmin Pmax.
Proof. intros. unfold gen_intepr_bilin, k_bilin. rnum. first [reflexivity | field; split; assumption]. Qed.

Lemma tie_interp_exp_only : forall x11 x12 Tv Tmin Tmax : R,
  gen_interp_exp_only x11 x12 Tv Tmin Tmax = @k_exp R RTNum x11 x12 Tv Tmin Tmax.
Proof. intros. unfold gen_interp_exp_only, k_exp. rnum. reflexivity. Qed.

Lemma tie_interp_exp_and_lin : forall x11 x12 x21 x22 Tv Tmin Tmax P Pmin Pmax : R,
  gen_interp_exp_and_lin x11 x12 x21 x22 Tv Tmin Tmax P Pmin Pmax =
  @k_explin R RTNum x11 x12 x21 x22 Tv Tmin Tmax P Pmin Pmax.
Proof. intros. unfold gen_interp_exp_and_lin, k_explin. rnum. reflexivity. Qed.
