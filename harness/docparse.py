"""Reads the user documentation of the input file (doc/source/user/taurex/*.rst) into:
   selectors : [(section, selector_variable, keyword, class_name or None, file:line)]
   keys      : [(section, [keywords of the component], key, type, default or None, file:line)]
Only the reference pages of the built-in sections are read; the tutorial pages (quickstart, custom, inputfile,
mixins) use made-up names."""
import os
import re

PAGES = {
    'temperature.rst': ('Temperature', 'profile_type'),
    'pressure.rst': ('Pressure', 'profile_type'),
    'chemistry.rst': ('Chemistry', 'chemistry_type'),
    'planet.rst': ('Planet', 'planet_type'),
    'star.rst': ('Star', 'star_type'),
    'models.rst': ('Model', 'model_type'),
    'optimizer.rst': ('Optimizer', 'optimizer'),
    'instrument.rst': ('Instrument', 'instrument'),
    'observation.rst': ('Observation', 'observation'),
}
SELVARS = ['profile_type', 'chemistry_type', 'gas_type', 'planet_type', 'star_type', 'model_type', 'optimizer',
           'instrument']
SKIP = {'custom'}


def parse(repo):
    d = os.path.join(repo, 'doc', 'source', 'user', 'taurex')
    selectors, keys = [], []
    for page, (section, selvar) in PAGES.items():
        p = os.path.join(d, page)
        if not os.path.exists(p):
            continue
        lines = open(p).read().splitlines()
        listvar = None            # the selector variable the current bullet list enumerates
        current = None            # (section or 'Gas' or 'Contribution', [keywords]) the next Keywords table belongs to
        page_default = None
        if page == 'observation.rst':
            current = ('Observation', ['*'])
        last_sel_line = -10
        in_kw_table = False
        recent_var = None
        for i, l in enumerate(lines):
            where = '%s:%d' % (page, i + 1)
            # a sentence announcing a list:  "The available ``profile_type`` are:" / "using the ``optimizer`` keyword:"
            mv = re.findall(r'``(%s)``' % '|'.join(SELVARS), l)
            if mv:
                recent_var = (mv[-1], i)
            if l.rstrip().endswith(':') and not l.strip().startswith('|') and recent_var and i - recent_var[1] <= 1:
                listvar = recent_var[0]
            m = re.match(r'^\s+-\s+``([A-Za-z0-9_\-]+)``\s*$', l)
            if m and listvar:
                kw = m.group(1)
                klass = None
                for j in range(i + 1, min(i + 4, len(lines))):
                    mc = re.search(r':class:`~?([A-Za-z0-9_.]+)`', lines[j])
                    if mc:
                        klass = mc.group(1).split('.')[-1]
                        break
                    if re.match(r'^\s+-\s+``', lines[j]):
                        break
                if kw not in SKIP:
                    selectors.append((sec_of(listvar, section), listvar, kw, klass, where))
                continue
            if l.strip() == '' or l.startswith('    '):
                pass
            elif not re.match(r'^\s+-', l) and listvar and not l.strip().startswith('-') and l.strip() and not l.rstrip().endswith(':'):
                if not re.search(r'``(%s)``' % '|'.join(SELVARS), l):
                    listvar = None if not l.startswith(' ') else listvar
            # inline / heading selectors:  ``star_type = blackbody``  ``profile_type=simple``
            for m in re.finditer(r'``(%s)\s*=\s*([A-Za-z0-9_\-]+)``' % '|'.join(SELVARS), l):
                var, kw = m.group(1), m.group(2)
                if kw in SKIP:
                    continue
                selectors.append((sec_of(var, section), var, kw, None, where))
                if l.strip().startswith('``'):           # a heading line: names the component described next
                    if current is not None and i - last_sel_line <= 1 and current[0] == sec_of(var, section):
                        current[1].append(kw)
                    else:
                        current = (sec_of(var, section), [kw])
                    last_sel_line = i
                elif page_default is None and page in ('planet.rst', 'pressure.rst'):
                    page_default = (section, [kw])
                    current = page_default
                elif page_default is not None and current is page_default:
                    page_default[1].append(kw)
            # contribution headings:  ``[[SimpleClouds]]`` or ``[[ThickClouds]]``
            cs = re.findall(r'``\[\[([A-Za-z0-9_]+)\]\]``', l)
            if cs and l.strip().startswith('``'):
                current = ('Contribution', list(cs))
                for c in cs:
                    selectors.append(('Contribution', '[[ ]]', c, None, where))
            # keyword tables
            if l.startswith('|'):
                cells = [c.strip() for c in l.strip().strip('|').split('|')]
                if cells and cells[0] == 'Variable':
                    in_kw_table = True
                    hdr = cells
                    continue
                if cells and cells[0] in ('Parameter',):
                    in_kw_table = False
                    continue
                if in_kw_table and current is not None:
                    m = re.match(r'^``([A-Za-z0-9_]+)``$', cells[0])
                    if m:
                        typ = cells[1] if len(cells) > 1 else ''
                        mt = re.search(r':obj:`([a-z]+)`', typ)
                        default = cells[3] if (len(cells) > 3 and len(hdr) > 3 and hdr[3] == 'Default') else None
                        keys.append((current[0], list(current[1]), m.group(1), mt.group(1) if mt else typ, default, where))
            elif not l.startswith('+'):
                if l.strip() and in_kw_table:
                    in_kw_table = False
    # de-duplicate selectors (keep the first with a class name if any)
    seen = {}
    for s in selectors:
        k = (s[0], s[2])
        if k not in seen or (seen[k][3] is None and s[3] is not None):
            seen[k] = s
    return list(seen.values()), keys


def sec_of(var, page_section):
    if var == 'gas_type':
        return 'Gas'
    return page_section


if __name__ == '__main__':
    import sys
    s, k = parse(sys.argv[1] if len(sys.argv) > 1 else '/repo')
    for x in s:
        print('SEL', x)
    for x in k:
        print('KEY', x)
