"""C09 — posterior summaries are the weighted statistics of the stored samples."""
import math
import os

import numpy as np

import common as C
import tmodel

META = dict(
    rule='sample sets of size 1..300, 1..4 fitted parameters, weight distributions (uniform, exponential, one '
         'dominant, ties, zeros), with and without a derived parameter, returned by doubles of nestle.sample and '
         'pymultinest.run (which writes the files store_nest_solutions reads); Optimizer.fit() is run end to end '
         'on a small transmission model and the solution dictionary compared entry by entry; non-trivial = '
         '>= 5 samples with >= 2 distinct weights; distinct by sample set',
    trusted=['the sampler doubles; an independent model instance evaluated at the MAP / median for the stored '
             'spectrum and profiles; PolyChord shares quantile_corner and the placement code with MultiNest and is '
             'covered by the model but not run end to end'],
    modelled=['quantile_corner, NestleOptimizer.store_nestle_output / get_solution, '
              'MultiNestOptimizer.store_nest_solutions (single mode) / get_solution, Optimizer.generate_solution '
              'wiring (spectrum at MAP, profiles at median), compute_derived_trace'],
    assumptions=['positive total weight; sample values pairwise distinct per parameter for the permutation clause',
                 'tolerance 1e-10 relative (exact rational model)'],
)

HEADER = C.HEADER_Q + 'From TV Require Import Model_C09 Exec_C09.\n'


def gen_weights(rng, n):
    kind = rng.choice(['uniform', 'exp', 'dominant', 'ties', 'zeros', 'random'])
    if kind == 'uniform':
        w = np.ones(n)
    elif kind == 'exp':
        w = np.exp(np.linspace(-20, 0, n))
    elif kind == 'dominant':
        w = np.array([rng.uniform(0, 1e-6) for _ in range(n)])
        w[rng.randrange(n)] = 1.0
    elif kind == 'ties':
        w = np.array([rng.choice([0.1, 0.2, 0.4]) for _ in range(n)])
    elif kind == 'zeros':
        w = np.array([rng.choice([0.0, 0.0, rng.random()]) for _ in range(n)])
        w[rng.randrange(n)] = 1.0
    else:
        w = np.array([rng.random() for _ in range(n)])
    return kind, w / w.sum()


class FakeResult:
    """every field of nestle's Result; the log-likelihoods are NOT ordered like the weights (in a real run the point of
    greatest likelihood is the last one, the point of greatest weight lies in the bulk of the posterior)"""
    def __init__(self, samples, weights):
        self.samples, self.weights = samples, weights
        self.logz, self.logzerr, self.h = -12.5, 0.3, 2.0
        n = len(weights)
        self.niter, self.ncall = n, 3 * n
        self.logl = np.linspace(-50.0, -1.0, n)
        self.logvol = -np.arange(1, n + 1) / 5.0

    def summary(self):
        return 'recorded result'


def setup(rng):
    spec = tmodel.gen_spec(rng, ngas=2, contribs=['Absorption'], nlayers=rng.choice([3, 4]), nwn=6)
    spec['T'] = [rng.uniform(800, 1500)]
    spec['level'] = 'mid'
    for g in spec['gases']:           # fitted in log space: the starting abundance must be positive
        if spec['mix'][g] <= 0:
            spec['mix'][g] = 1e-5
    return spec


def make_obs(rng, model):
    from taurex.data.spectrum.array import ArraySpectrum
    with np.errstate(all='ignore'):
        wn, depth, _, _ = model.model()
    idx = sorted(rng.sample(range(len(wn)), 3))
    cen = np.array([float(wn[j]) for j in idx])
    arr = np.vstack([10000 / cen, np.array(depth)[idx] * 1.01, np.ones(3) * float(np.mean(depth)) * 0.05]).T
    return ArraySpectrum(arr)


def run(ctx):
    import nestle
    import pymultinest
    from taurex.optimizer import NestleOptimizer, MultiNestOptimizer
    from taurex.core.priors import Uniform, LogUniform
    rng = ctx.rng
    exprs, metas = [], []
    for i in range(ctx.n(24, 200)):
        kind = ['nestle', 'multinest'][i % 2]
        spec = setup(rng)
        model = tmodel.build(spec)
        obs = make_obs(rng, model)
        g1 = spec['gases'][0]
        cand = [('planet_radius', 'lin', (spec['planet_radius'] * 0.8, spec['planet_radius'] * 1.2)),
                ('T', 'lin', (600.0, 1800.0)), (g1, 'log', (-8.0, -2.0)),
                ('atm_min_pressure', 'log', (math.log10(spec['pmin']) - 0.5, math.log10(spec['pmin']) + 0.5))]
        fit = rng.sample(cand, rng.randint(1, 4))
        ns = rng.choice([1, 2, 3, 5, 17, 60, 300]) if i >= 2 else 5
        if kind == 'multinest' and ns == 1:
            ns = 2        # MultiNest's text output always has several rows (numpy.loadtxt returns 1-D for one)
        wkind, w = gen_weights(rng, ns)
        # derived parameters: none, one, or several at once (the traces are gathered together)
        dnames = rng.sample(['logg', 'avg_T', 'metallicity', 'mu'], rng.choice([0, 0, 1, 1, 2, 3, 4]) if i >= 4 else [2, 3, 4, 2][i])
        derived = bool(dnames)
        rp = dict(kind=kind, spec=spec, fit=[f[0] for f in fit], ns=ns, weights=w)
        if kind == 'nestle':
            opt = NestleOptimizer(observed=obs, model=model, num_live_points=5)
        else:
            mdir = os.path.join(C.CACHE, 'mn_%d' % os.getpid())
            os.makedirs(mdir, exist_ok=True)
            opt = MultiNestOptimizer(multi_nest_path=mdir, observed=obs, model=model, search_multi_modes=False)
        for n in list(model.fittingParameters):
            opt.disable_fit(n)
        for name, k, b in fit:
            opt.enable_fit(name)
            opt.set_prior(name, (LogUniform if k == 'log' else Uniform)(bounds=list(b)))
        for dn in dnames:
            opt.enable_derived(dn)
        ctx.count('derived parameters: %d' % len(dnames))
        opt.compile_params()
        order = [n.replace('log_', '') for n in opt.fit_names]
        fd = {f[0]: f for f in fit}
        ndim = len(order)
        samples = np.array([[rng.uniform(*fd[n][2]) for n in order] for _ in range(ns)])
        rp['samples'] = samples
        stats_map = samples[int(np.argmax(w))].tolist()
        stats_mean = np.average(samples, weights=w, axis=0).tolist()
        restore = lambda: None
        try:
            if kind == 'nestle':
                orig = nestle.sample
                nestle.sample = lambda *a, **k_: FakeResult(samples.copy(), w.copy())
                restore = lambda: setattr(nestle, 'sample', orig)
            else:
                def hook(kw):
                    base = kw['outputfiles_basename']
                    np.savetxt(base + '.txt', np.column_stack([w, np.zeros(ns), samples]).reshape(ns, -1))
                pymultinest.HOOK = hook
                pymultinest.STATS = {'global evidence': -12.5, 'global evidence error': 0.3,
                                     'modes': [{'local log-evidence': -12.5, 'local log-evidence error': 0.3,
                                                'maximum a posterior': stats_map, 'mean': stats_mean,
                                                'sigma': [0.0] * ndim}]}
                restore = lambda: (setattr(pymultinest, 'HOOK', None), setattr(pymultinest, 'STATS', None))
            import contextlib
            import io
            with np.errstate(all='ignore'), contextlib.redirect_stdout(io.StringIO()):
                sol = opt.fit()
        except Exception as e:
            import traceback
            ctx.violation('fit-raises:' + kind, 'Optimizer.fit() raised %r for %d samples of %d parameters %s'
                          % (e, ns, ndim, traceback.format_exc()[-700:]), replay=rp)
            restore()
            continue
        restore()
        s0 = sol['solution0']
        names = list(opt.fit_names)
        ctx.count('sampler:' + kind)
        ctx.count('weights:' + wkind)
        ctx.count('ns:%d' % ns)
        # (a) traces / weights unchanged
        if not (np.array_equal(np.asarray(s0['tracedata']).reshape(ns, ndim), samples) and
                np.array_equal(np.asarray(s0['weights']).ravel(), w) and
                np.array_equal(np.asarray(opt.get_samples(0)).reshape(ns, ndim), samples) and
                np.array_equal(np.asarray(opt.get_weights(0)).ravel(), w)):
            ctx.violation('traces-changed:' + kind, 'stored traces / weights are not the sampler\'s samples', replay=rp)
            continue
        fp = s0['fit_params']
        impl_rows = []
        for a, nm in enumerate(names):
            p = fp[nm]
            impl_rows.append([float(p['value']), float(p['sigma_m']), float(p['sigma_p']),
                              float(p['map'] if kind == 'nestle' else p['nest_map']), float(p['mean']),
                              np.asarray(p['trace']).ravel()])
            if not np.array_equal(impl_rows[-1][5], samples[:, a]):
                ctx.violation('trace-column:' + kind, 'trace of %s is not column %d of the samples' % (nm, a), replay=rp)
        # solution spectrum at the MAP, profiles at the median: independent model
        model2 = tmodel.build(spec)
        binner2 = obs.create_binner()
        tom = lambda nm, v: 10 ** v if fd[nm][1] == 'log' else v

        def eval_at(vec):
            for nm, v in zip(order, vec):
                model2[nm] = tom(nm, v)
            with np.errstate(all='ignore'):
                r = model2.model(cutoff_grid=False)
            return r
        mapvec = [r[3] for r in impl_rows]
        medvec = [r[0] for r in impl_rows]
        r_map = eval_at(mapvec)
        want_b = binner2.bindown(r_map[0], r_map[1])[1]
        if not np.allclose(s0['Spectra']['binned_spectrum'], want_b, rtol=1e-10) or \
                not np.allclose(s0['Spectra']['native_spectrum'], r_map[1], rtol=1e-10):
            ctx.violation('solution-spectrum:' + kind, 'stored spectrum is not the forward model at the MAP binned to '
                          'the observation', replay=rp)
        eval_at(medvec)
        if not np.allclose(s0['Profiles']['temp_profile'], model2.temperatureProfile, rtol=1e-10) or \
                not np.allclose(s0['Profiles']['active_mix_profile'], model2.chemistry.activeGasMixProfile, rtol=1e-10) or \
                not np.allclose(s0['Profiles']['pressure_profile'], model2.pressureProfile, rtol=1e-10):
            ctx.violation('solution-profiles:' + kind, 'stored profiles are not those of the median solution', replay=rp)
        if derived:
            from taurex.util.util import quantile_corner
            traces = {dn: [] for dn in dnames}
            for row in samples:
                eval_at(list(row))
                for dn in dnames:
                    traces[dn].append(float(model2.derivedParameters[dn][2]()))
            for dn in dnames:
                d = s0.get('derived_params', {}).get(dn + '_derived')
                mus = traces[dn]
                if d is None or len(np.asarray(d['trace'])) != ns or not np.allclose(d['trace'], mus, rtol=1e-10):
                    ctx.violation('derived-trace:' + kind, 'derived trace of %s (%d derived parameters enabled) is not one '
                                  'entry per sample in sample order' % (dn, len(dnames)), replay=dict(rp, derived=dnames))
                elif ns >= 1:
                    q = quantile_corner(np.array(mus), [0.16, 0.5, 0.84], weights=w)
                    if not np.allclose([d['value'], d['sigma_m'], d['sigma_p']], [q[1], q[1] - q[0], q[2] - q[1]], rtol=1e-9, atol=1e-12):
                        ctx.violation('derived-summary:' + kind, 'derived summaries of %s do not follow the quantile rule' % dn,
                                      replay=dict(rp, derived=dnames))
        exprs.append('run_summaries %s %s %s' % (C.clist([C.qlist(r) for r in samples]), C.qlist(w), C.natlit(ndim)))
        metas.append(dict(rows=impl_rows, rp=rp, kind=kind, ns=ns,
                          nontriv=(ns >= 5 and len(set(w.tolist())) >= 2), names=names,
                          stats=(stats_map, stats_mean)))
    for mt, r in zip(metas, C.run_cases('C09', HEADER, exprs, shard=8)):
        bad = None
        for a, (impl, row) in enumerate(zip(mt['rows'], r)):
            mv = [float(C.q_out(x)) for x in row]
            scale = max(abs(mv[0]), 1e-300)
            if not (math.isclose(impl[0], mv[0], rel_tol=1e-10) and abs(impl[1] - mv[1]) <= 1e-10 * scale and
                    abs(impl[2] - mv[2]) <= 1e-10 * scale):
                bad = '%s: value/sigma_m/sigma_p impl %r model %r' % (mt['names'][a], impl[:3], mv[:3])
            if not math.isclose(impl[3], mv[3], rel_tol=1e-12):
                bad = '%s: MAP impl %r, sample of greatest weight %r' % (mt['names'][a], impl[3], mv[3])
            if not math.isclose(impl[4], mv[4], rel_tol=1e-9):
                bad = '%s: mean impl %r weighted mean %r' % (mt['names'][a], impl[4], mv[4])
        ctx.case((mt['kind'], mt['ns'], float(mt['rp']['weights'][0]), float(mt['rp']['samples'][0][0])),
                 nontrivial=mt['nontriv'],
                 sample=dict(sampler=mt['kind'], nsamples=mt['ns'], parameters=mt['names'],
                             value=[r_[0] for r_ in mt['rows']]))
        if bad:
            ctx.violation('summary:' + mt['kind'], 'posterior summaries: ' + bad, replay=mt['rp'])
        else:
            ctx.validated()
    multimode_cases(ctx)
    import shutil
    shutil.rmtree(os.path.join(C.CACHE, 'mn_%d' % os.getpid()), ignore_errors=True)


def multimode_cases(ctx):
    """MultiNest with search_multi_modes: one solution per mode, each summarised from its OWN samples"""
    import contextlib
    import io
    import pymultinest
    from taurex.optimizer import MultiNestOptimizer
    from taurex.core.priors import Uniform, LogUniform
    from taurex.util.util import quantile_corner
    rng = ctx.rng
    for i in range(ctx.n(4, 30)):
        spec = setup(rng)
        model = tmodel.build(spec)
        obs = make_obs(rng, model)
        g1 = spec['gases'][0]
        cand = [('planet_radius', 'lin', (spec['planet_radius'] * 0.8, spec['planet_radius'] * 1.2)),
                ('T', 'lin', (600.0, 1800.0)), (g1, 'log', (-8.0, -2.0))]
        fit = rng.sample(cand, rng.randint(1, 3))
        mdir = os.path.join(C.CACHE, 'mn_%d' % os.getpid())
        os.makedirs(mdir, exist_ok=True)
        opt = MultiNestOptimizer(multi_nest_path=mdir, observed=obs, model=model, search_multi_modes=True)
        for n in list(model.fittingParameters):
            opt.disable_fit(n)
        for name, k, b in fit:
            opt.enable_fit(name)
            opt.set_prior(name, (LogUniform if k == 'log' else Uniform)(bounds=list(b)))
        opt.compile_params()
        order = [n.replace('log_', '') for n in opt.fit_names]
        fd = {f[0]: f for f in fit}
        ndim = len(order)
        nmodes = rng.choice([2, 2, 3])
        equal = rng.random() < 0.4
        sizes = [rng.randint(2, 9)] * nmodes if equal else [rng.randint(2, 9) for _ in range(nmodes)]
        modes = [np.array([[rng.uniform(*fd[n][2]) for n in order] for _ in range(sz)]) for sz in sizes]
        weights = [np.array([rng.random() + 1e-3 for _ in range(sz)]) for sz in sizes]
        tot = sum(w.sum() for w in weights)
        weights = [w / tot for w in weights]
        stats = {'global evidence': -12.5, 'global evidence error': 0.3, 'modes': []}
        for m_, w_ in zip(modes, weights):
            stats['modes'].append({'local log-evidence': -12.5 - len(stats['modes']), 'local log-evidence error': 0.3,
                                   'maximum a posterior': m_[int(np.argmax(w_))].tolist(),
                                   'mean': np.average(m_, weights=w_, axis=0).tolist(), 'sigma': [0.1] * ndim})
        rp = dict(kind='multinest-modes', spec=spec, fit=order, modes=modes, weights=weights)

        def hook(kw):
            base = kw['outputfiles_basename']
            allm, allw = np.vstack(modes), np.concatenate(weights)
            np.savetxt(base + '.txt', np.column_stack([allw, np.zeros(len(allw)), allm]))
            with open(base + 'post_separate.dat', 'w') as fh:
                for m_, w_ in zip(modes, weights):
                    fh.write('\n\n')
                    for row, ww in zip(m_, w_):
                        fh.write(' '.join(repr(float(x)) for x in [ww, 0.0] + list(row)) + '\n')
        pymultinest.HOOK, pymultinest.STATS = hook, stats
        try:
            with np.errstate(all='ignore'), contextlib.redirect_stdout(io.StringIO()):
                sol = opt.fit()
        except Exception as e:
            import traceback
            ctx.violation('fit-raises:multinest-modes', 'Optimizer.fit() raised %r for %d modes of sizes %r\n%s'
                          % (e, nmodes, sizes, traceback.format_exc()[-700:]), replay=rp)
            continue
        finally:
            pymultinest.HOOK, pymultinest.STATS = None, None
        ctx.case(('modes', nmodes, tuple(sizes), float(modes[0][0][0])), nontrivial=True,
                 sample=dict(sampler='multinest, %d modes' % nmodes, samples_per_mode=sizes))
        ctx.count('multimode:%d' % nmodes)
        bad = None
        for j, (m_, w_) in enumerate(zip(modes, weights)):
            sj = sol.get('solution%d' % j)
            if sj is None:
                bad = 'solution%d is missing (solutions: %r)' % (j, [k for k in sol if k.startswith('solution')])
                break
            if not (np.array_equal(np.asarray(sj['tracedata']), m_) and np.allclose(np.asarray(sj['weights']).ravel(), w_, rtol=1e-15)):
                bad = 'solution%d does not hold the samples / weights of mode %d' % (j, j)
                break
            for a, nm in enumerate(opt.fit_names):
                p = sj['fit_params'][nm]
                q = quantile_corner(m_[:, a], [0.16, 0.5, 0.84], weights=w_)
                if not np.allclose([p['value'], p['sigma_m'], p['sigma_p']], [q[1], q[1] - q[0], q[2] - q[1]], rtol=1e-12, atol=1e-15):
                    bad = 'solution%d %s: value / errors are not the weighted quantiles of the mode\'s own samples' % (j, nm)
                if not np.isclose(p['nest_map'], stats['modes'][j]['maximum a posterior'][a]):
                    bad = 'solution%d %s: MAP %r is not that of mode %d (%r)' % (j, nm, p['nest_map'], j, stats['modes'][j]['maximum a posterior'][a])
            # the stored spectrum is the forward model at THIS mode's MAP
            model2 = tmodel.build(spec)
            for nm_, v in zip(order, stats['modes'][j]['maximum a posterior']):
                model2[nm_] = 10 ** v if fd[nm_][1] == 'log' else v
            with np.errstate(all='ignore'):
                r = model2.model(cutoff_grid=False)
            if not np.allclose(sj['Spectra']['native_spectrum'], r[1], rtol=1e-10):
                bad = 'solution%d: stored spectrum is not the forward model at the MAP of mode %d' % (j, j)
        if bad:
            ctx.violation('modes:' + bad.split(' ')[0].rstrip('0123456789') , 'multi-modal summaries: ' + bad, replay=rp)
        else:
            ctx.validated()


def replay(ctx, obj):
    ctx.notes.append('replay re-runs the whole deterministic check with the stored seed')
    run(ctx)
