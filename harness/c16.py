"""C16 — output files hold what was computed and reload to the same model."""
import contextlib
import io
import os
from fractions import Fraction

import numpy as np

import common as C
import tmodel

META = dict(
    rule='(A) nested result dictionaries of depth <= 3 holding floats, ints, numpy scalars, 1-D / 2-D arrays, strings, '
         'lists and tuples of numbers, lists and tuples of strings (names longer than 64 characters included), '
         'written with HDF5Output.store_dictionary and read back with h5py; (B) spectrum dictionaries of the native, '
         'simple and flux binners at every output size, on random native grids, with and without explicit widths, then '
         'stored and read back; (C) forward models over {transmission, emission, direct image} x {isothermal, Guillot, '
         'N-point, Rodgers, file} temperature x {constant, two-layer, power-law (explicit and automatic)} gases x random '
         'subsets of {Absorption, CIA, Rayleigh, SimpleClouds, FlatMie, LeeMie}, every constructor keyword set away '
         'from its default, written with model.write and rebuilt with taurex_hdf5_to_model; non-trivial = >= 4 '
         'entries (A), >= 3 native points (B), every (C) case; distinct by content',
    trusted=['h5py as the independent reader; the recording wrappers around constructors (harness side); in-memory '
             'opacities of the shared model generator'],
    modelled=['store_thing / recursively_save_dict_contents_to_output, HDF5OutputGroup.write_*; '
              'Binner / FluxBinner / SimpleBinner / NativeBinner.generate_spectrum_output (names, grids, widths); '
              'get_klass_args and load_generic_profile_from_hdf5 (which stored names reach the constructor)'],
    assumptions=['dictionaries are stored under a named group, as the program does (HDF5Output itself has no dataset writers)',
                 'names and strings are ASCII (the writer drops other characters by design: encode("ascii", "ignore"))',
                 'lists are homogeneous (all numbers or all strings) and rectangular',
                 'the model-level nlayers / atm_min_pressure / atm_max_pressure are superseded by the stored pressure '
                 'profile and are not compared',
                 'tolerance: rebuilt spectra 1e-7 relative (contributions are re-added in name order, which changes '
                 'the summation order); grids 1e-12 relative against the exact rational model'],
)

HEADER = C.HEADER_Q + 'From TV Require Import Model_C16 Exec_C16.\nOpen Scope string_scope.\nOpen Scope list_scope.\n'


def coq_str(s):
    assert all(32 <= ord(ch) < 127 for ch in s), s
    return '"' + s.replace('"', '""') + '"'


def dec(codes):
    return ''.join(chr(c) for c in codes)


# ---------------------------------------------------------------------------------- (A) dictionaries
NAMES = ['Spectra', 'Profiles', 'native_wngrid', 'binned_spectrum', 'fit_params', 'T', 'log_H2O', 'value', 'sigma_m',
         'trace', 'Statistics', 'local log-evidence', 'mu_derived', 'weights', 'names', 'latex', 'solution0', 'x1',
         'Contributions', 'Absorption', 'H2O', 'a b', 'data.set', '0', 'tau']


def gen_leaf(rng):
    k = rng.choice(['float', 'int', 'npfloat', 'npint', 'arr1', 'arr2', 'arrint', 'str', 'numlist', 'numtuple',
                    'strlist', 'strtuple', 'longstr', 'empty-arr'])
    if k == 'float':
        v = rng.choice([0.0, -1.5, rng.uniform(-1e3, 1e3), 10 ** rng.uniform(-30, 30)])
        return v, 'LScalar %s' % C.q(v)
    if k == 'int':
        v = rng.randint(-10 ** 6, 10 ** 6)
        return v, 'LScalar %s' % C.q(float(v))
    if k == 'npfloat':
        v = np.float64(rng.uniform(-5, 5))
        return v, 'LScalar %s' % C.q(float(v))
    if k == 'npint':
        v = np.int64(rng.randint(-1000, 1000))
        return v, 'LScalar %s' % C.q(float(v))
    if k in ('arr1', 'empty-arr'):
        n = 0 if k == 'empty-arr' else rng.randint(1, 6)
        v = np.array([rng.uniform(-9, 9) for _ in range(n)])
        return v, 'LArray [%d%%nat] %s' % (n, C.qlist(v.tolist()))
    if k == 'arr2':
        a, b = rng.randint(1, 3), rng.randint(1, 4)
        v = np.array([[rng.uniform(-9, 9) for _ in range(b)] for _ in range(a)])
        return v, 'LArray [%d%%nat; %d%%nat] %s' % (a, b, C.qlist(v.ravel().tolist()))
    if k == 'arrint':
        n = rng.randint(1, 5)
        v = np.array([rng.randint(-50, 50) for _ in range(n)])
        return v, 'LArray [%d%%nat] %s' % (n, C.qlist([float(x) for x in v]))
    if k == 'str':
        v = rng.choice(['TransmissionModel', 'a', '', 'H2O and CH4', '$\\log(H_2O)$', 'x' * 70])
        return v, 'LStr %s' % coq_str(v)
    if k in ('numlist', 'numtuple'):
        n = rng.randint(1, 5)
        l = [rng.choice([rng.uniform(-9, 9), float(rng.randint(-5, 5))]) for _ in range(n)]
        v = l if k == 'numlist' else tuple(l)
        return v, 'LNumList %s %s' % (C.boollit(k == 'numtuple'), C.qlist(l))
    n = rng.randint(1, 4)
    pool = ['T', 'log_H2O', 'planet_radius', '$T$', '$\\log(\\mathrm{H_2O})$', 'a b c', '']
    if k == 'longstr':
        pool = pool + ['p' * 64, 'q' * 65, 'log_' + 'r' * 90]
    l = [rng.choice(pool) for _ in range(n)]
    if k == 'longstr':
        l[rng.randrange(n)] = rng.choice(['q' * 65, 'log_' + 'r' * 90, 's' * 64])
    v = tuple(l) if k == 'strtuple' else l
    return v, 'LStrList %s %s' % (C.boollit(k == 'strtuple'), C.clist([coq_str(s) for s in l]))


def gen_dict(rng, depth):
    d, lits = {}, []
    for name in rng.sample(NAMES, rng.randint(1, 5)):
        if depth < 3 and rng.random() < 0.3:
            sub, slit = gen_dict(rng, depth + 1)
            d[name] = sub
            lits.append('(%s, %s)' % (coq_str(name), slit))
        else:
            v, lit = gen_leaf(rng)
            d[name] = v
            lits.append('(%s, Leaf (%s))' % (coq_str(name), lit))
    return d, 'Dict %s' % C.clist(lits)


def read_h5(g, prefix=()):
    """-> {path: (kind, shape, numbers, strings)}"""
    import h5py
    out = {}
    for k in g.keys():
        it = g[k]
        p = prefix + (k,)
        if isinstance(it, h5py.Group):
            out[p] = (4, (), [], [])
            out.update(read_h5(it, p))
            continue
        v = it[()]
        if isinstance(v, bytes):
            out[p] = (2, (), [], [v.decode()])
        elif isinstance(v, np.ndarray) and v.dtype.kind == 'S':
            out[p] = (3, (v.shape[0],), [], [x.decode() for x in v.ravel()])
        elif isinstance(v, np.ndarray):
            out[p] = (1, tuple(v.shape), [Fraction(float(x)) for x in v.ravel()], [])
        else:
            out[p] = (0, (), [Fraction(float(v))], [])
    return out


def flat_orig(d, prefix=()):
    """what the property promises: every entry under its nested name, value unchanged"""
    out = {}
    for k, v in d.items():
        p = prefix + (k,)
        if isinstance(v, dict):
            out[p] = ('group',)
            out.update(flat_orig(v, p))
        elif isinstance(v, str):
            out[p] = ('str', [v])
        elif isinstance(v, (list, tuple)) and any(isinstance(x, str) for x in v):
            out[p] = ('str', list(v))
        elif isinstance(v, (list, tuple, np.ndarray)):
            a = np.asarray(v, dtype=float)
            out[p] = ('num', tuple(a.shape), [Fraction(float(x)) for x in a.ravel()])
        else:
            out[p] = ('num', (), [Fraction(float(v))])
    return out


def part_a(ctx, tmp):
    import h5py
    from taurex.output.hdf5 import HDF5Output
    rng = ctx.rng
    exprs, metas = [], []
    for n in range(ctx.n(120, 1200)):
        d, lit = gen_dict(rng, 1)
        path = os.path.join(tmp, 'a.h5')
        group = rng.choice(['Output', 'Solutions', 'Priors'])
        rp = dict(part='dictionary', dictionary=d, group=group)
        try:
            with HDF5Output(path) as o:
                o.store_dictionary(d, group_name=group)
        except Exception as e:
            import traceback
            ctx.violation('store-raises', 'store_dictionary raised %r\n%s' % (e, traceback.format_exc()[-600:]), replay=rp)
            continue
        with h5py.File(path, 'r') as f:
            got = read_h5(f[group] if group else f)
        want = flat_orig(d)
        bad = None
        for p, w in want.items():
            g = got.get(p)
            if g is None:
                bad = 'entry %s is not in the file' % '/'.join(p)
            elif w[0] == 'group':
                if g[0] != 4:
                    bad = '%s is not a group' % '/'.join(p)
            elif w[0] == 'str':
                if g[3] != w[1]:
                    bad = 'string(s) at %s changed: stored %r, read back %r' % ('/'.join(p), w[1], g[3])
            else:
                if tuple(g[1]) != tuple(w[1]) or g[2] != w[2]:
                    bad = 'numbers at %s changed: shape %r -> %r' % ('/'.join(p), w[1], g[1])
        for p in got:
            if p not in want:
                bad = 'the file holds %s, which the dictionary does not' % '/'.join(p)
        if bad:
            ctx.violation('roundtrip:' + bad.split(' ')[0], 'dictionary round trip: ' + bad, replay=rp)
        exprs.append('run_store (%s)' % lit)
        metas.append(dict(got=got, rp=rp, n=len(want)))
        ctx.count('A-entries', len(want))
    for mt, out in zip(metas, C.run_cases('C16a', HEADER, exprs, shard=20)):
        model = {}
        for ent in out:
            p = tuple(dec(x) for x in ent[0])
            if not p:
                continue
            kind = ent[1][0][0]
            shape = tuple(ent[2][0]) if ent[2] and ent[2][0] else ()
            nums = [Fraction(x[0], x[1]) for x in ent[3]]
            strs = [dec(x) for x in ent[4]]
            model[p] = (kind, shape, nums, strs)
        bad = None
        if set(model) != set(mt['got']):
            bad = 'names differ: only in model %r, only in file %r' % (sorted(set(model) - set(mt['got']))[:3],
                                                                      sorted(set(mt['got']) - set(model))[:3])
        else:
            for p, m in model.items():
                g = mt['got'][p]
                if m[0] != g[0] or tuple(m[1]) != tuple(g[1]) or m[2] != g[2] or m[3] != g[3]:
                    bad = '%s: model %r, file %r' % ('/'.join(p), (m[0], m[1], m[3][:2]), (g[0], g[1], g[3][:2]))
        ctx.case(('A', repr(sorted(mt['got']))[:200], mt['n']), nontrivial=mt['n'] >= 4,
                 sample=dict(part='dictionary', entries=mt['n']))
        if bad:
            ctx.violation('store-model', 'stored file differs from the model of the writer: ' + bad, replay=mt['rp'])
        else:
            ctx.validated()


# ---------------------------------------------------------------------------------- (B) spectrum dictionaries
def part_b(ctx, tmp):
    import h5py
    from taurex import OutputSize
    from taurex.binning import FluxBinner, SimpleBinner, NativeBinner
    from taurex.output.hdf5 import HDF5Output
    rng = ctx.rng
    exprs, metas = [], []
    for n in range(ctx.n(45, 400)):
        nw = rng.randint(3, 25)
        wn = np.cumsum([rng.uniform(5, 60) for _ in range(nw)]) + rng.uniform(200, 2000)
        flux = np.array([rng.uniform(0.005, 0.02) for _ in range(nw)])
        tau = np.array([[rng.uniform(0, 5) for _ in range(nw)] for _ in range(rng.randint(2, 4))])
        kind = ['native', 'simple', 'flux'][n % 3]
        # the enum members, and the plain integers the program produces with output_size - 3
        size = [OutputSize.lighter, OutputSize.light, OutputSize.heavy, 3, 0, -2, 2, 4, 7][(n // 3) % 9]
        nb = rng.randint(2, 6)
        tgt = np.sort(np.array(rng.sample(list(np.linspace(wn[0] + 1, wn[-1] - 1, 40)), nb)))
        ints = list(range(int(wn[0]) + 2, int(wn[-1]) - 1))
        if kind != 'native' and n % 5 in (1, 2) and len(ints) >= nb:
            # bin centres given as integers (np.arange-style grids are integer-typed): same bins, same stored widths
            tgt = np.sort(np.array(rng.sample(ints, nb), dtype=np.int64))
            ctx.count('integer-typed bin centres')
        widths = None
        if kind != 'native' and rng.random() < 0.5:
            widths = np.array([rng.uniform(10, 80) for _ in range(nb)])
        given_t, given_w = tgt, widths
        if kind == 'flux' and rng.random() < 0.5:
            # the flux binner accepts its bins in any order (it sorts centres and widths together)
            perm = list(range(nb))
            rng.shuffle(perm)
            given_t = tgt[perm]
            given_w = None if widths is None else widths[perm]
        binner = dict(native=lambda: NativeBinner(), simple=lambda: SimpleBinner(tgt, widths),
                      flux=lambda: FluxBinner(given_t, given_w))[kind]()
        rp = dict(part='spectrum dictionary', binner=kind, output_size=int(size), native_wngrid=wn, target=tgt, widths=widths)
        with np.errstate(all='ignore'):
            out = binner.generate_spectrum_output((wn, flux, tau, None), output_size=size)
        bad = None
        if not np.allclose(out['native_wlgrid'], 10000 / wn, rtol=1e-14):
            bad = 'native_wlgrid is not 10000/native_wngrid'
        if kind != 'native':
            with np.errstate(all='ignore'):
                bs = binner.bindown(wn, flux)[1]
                bt = binner.bindown(wn, tau)[1] if 'binned_tau' in out else None
            if not np.array_equal(np.asarray(out['binned_spectrum']), np.asarray(bs), equal_nan=True):
                bad = 'binned_spectrum is not the binner applied to native_spectrum'
            elif bt is not None and not np.array_equal(np.asarray(out['binned_tau']), np.asarray(bt), equal_nan=True):
                bad = 'binned_tau is not the binner applied to native_tau'
            elif not np.allclose(out['binned_wlgrid'], 10000 / np.asarray(out['binned_wngrid']), rtol=1e-14):
                bad = 'binned_wlgrid is not 10000/binned_wngrid'
            elif not np.allclose(out['binned_wlwidth'], 10000 * np.asarray(out['binned_wnwidth']) / np.asarray(out['binned_wngrid']) ** 2, rtol=1e-13):
                bad = 'binned_wlwidth is not binned_wnwidth converted at the bin centre'
            elif len(out['binned_spectrum']) != len(out['binned_wngrid']):
                bad = 'binned_spectrum and binned_wngrid have different lengths'
            elif not np.array_equal(np.asarray(out['binned_wngrid']), tgt) or \
                    (widths is not None and not np.array_equal(np.asarray(out['binned_wnwidth']), widths)):
                bad = 'stored bins are not the given (centre, width) pairs in ascending order: %r %r, given %r %r' % (
                    out['binned_wngrid'], out['binned_wnwidth'], given_t, given_w)
        if ('native_tau' in out) != (int(size) > 3) or (kind != 'native' and ('binned_tau' in out) != (int(size) > 1)):
            bad = 'optical depths do not follow the output size %d: keys %r' % (int(size), sorted(out))
        if bad:
            ctx.violation('spectrum-dict:' + kind, 'spectrum dictionary (%s binner, size %d): %s' % (kind, int(size), bad), replay=rp)
        # stored and read back
        path = os.path.join(tmp, 'b.h5')
        with HDF5Output(path) as o:
            o.store_dictionary(out, group_name='Spectra')
        with h5py.File(path, 'r') as f:
            for k, v in out.items():
                if k not in f['Spectra'] or not np.array_equal(f['Spectra'][k][()], np.asarray(v), equal_nan=True):
                    ctx.violation('spectrum-dict-stored', 'spectrum entry %s changes when stored and read back' % k, replay=rp)
        b = dict(native='BNative', simple='BSimple', flux='BFlux')[kind]
        e = 'run_keys %s (%d)%%Z' % (b, int(size))
        if kind == 'native':
            e2 = 'run_native_grids %s' % C.qlist(wn.tolist())
        else:
            e2 = 'run_binned_grids %s %s' % (C.qlist(np.asarray(out['binned_wngrid']).tolist()),
                                            C.qlist(np.asarray(out['binned_wnwidth']).tolist()))
        exprs.append('([%s], %s)' % (e, e2))
        metas.append(dict(out=out, kind=kind, rp=rp, nw=nw, size=int(size)))
        ctx.count('B-binner:' + kind)
        ctx.count('B-size:%d' % int(size))
    # (list (list (list Z)), list (list (list Z))) pairs are not lists: evaluate keys and grids separately
    keys = C.run_cases('C16k', HEADER, [x[1:x.index('],') + 1] for x in exprs], shard=60)
    grids = C.run_cases('C16g', HEADER, [x[x.index('],') + 3:-1] for x in exprs], shard=20)
    for mt, ks, gr in zip(metas, keys, grids):
        out = mt['out']
        mkeys = [dec(k) for k in ks[0]]
        bad = None
        if list(out.keys()) != mkeys:
            bad = 'names %r, model %r' % (list(out.keys()), mkeys)
        else:
            names = ['native_wngrid', 'native_wlgrid', 'native_wnwidth', 'native_wlwidth'] if mt['kind'] == 'native' \
                else ['binned_wngrid', 'binned_wlgrid', 'binned_wnwidth', 'binned_wlwidth']
            for nm, col in zip(names, gr):
                if nm not in out:
                    continue
                mv = np.array([float(Fraction(x[0], x[1])) for x in col])
                iv = np.asarray(out[nm], dtype=float)
                atol = 1e-13 * np.abs(np.asarray(out[names[0 if 'wn' in nm else 1]], dtype=float)) if 'width' in nm else 0.0
                if mv.shape != iv.shape or not np.all(np.abs(iv - mv) <= 1e-12 * np.abs(mv) + atol):
                    bad = '%s: implementation %r, model %r' % (nm, iv[:3], mv[:3])
        ctx.case(('B', mt['kind'], mt['size'], float(out['native_wngrid'][0])), nontrivial=mt['nw'] >= 3,
                 sample=dict(part='spectrum dictionary', binner=mt['kind'], size=mt['size'], names=list(out.keys())))
        if bad:
            ctx.violation('spectrum-model:' + mt['kind'], 'spectrum dictionary differs from the model: ' + bad, replay=mt['rp'])
        else:
            ctx.validated()


# ---------------------------------------------------------------------------------- (C) models
SUPERSEDED = {'nlayers', 'atm_min_pressure', 'atm_max_pressure'}
# planet_sma is another name of planet_distance (stored); derived_ratios / base_metallicty only configure which derived
# quantities are reported (base_metallicty is not even used by the constructor)
ALIASES = {'planet_sma', 'derived_ratios', 'base_metallicty'}
COMPONENT_ARGS = {'planet', 'star', 'chemistry', 'temperature_profile', 'pressure_profile', 'observation'}


def same_param(a, b):
    try:
        if a is None or b is None:
            return a is None and b is None
        if isinstance(a, (list, tuple, np.ndarray)) or isinstance(b, (list, tuple, np.ndarray)):
            aa, bb = np.atleast_1d(np.asarray(a)), np.atleast_1d(np.asarray(b))
            if aa.dtype.kind in 'USO' or bb.dtype.kind in 'USO':
                return [str(x) for x in aa.ravel()] == [x.decode() if isinstance(x, bytes) else str(x) for x in bb.ravel()]
            return aa.shape == bb.shape and bool(np.allclose(aa.astype(float), bb.astype(float), rtol=1e-13, atol=0))
        if isinstance(a, str) or isinstance(b, (str, bytes)):
            return str(a) == (b.decode() if isinstance(b, bytes) else str(b))
        if isinstance(a, bool) or isinstance(b, (bool, np.bool_)):
            return bool(a) == bool(b)
        # values kept in SI units inside the component come back through a unit conversion: one rounding
        return abs(float(a) - float(b)) <= 1e-13 * max(abs(float(a)), abs(float(b)))
    except Exception:
        return False


def part_c(ctx, tmp):
    import h5py
    import c15
    from taurex.output.hdf5 import HDF5Output
    from taurex.util.hdf5 import taurex_hdf5_to_model
    from taurex.data.profiles.temperature import Isothermal, Guillot2010, NPoint, Rodgers2000
    from taurex.data.profiles.temperature.file import TemperatureFile
    from taurex.data.profiles.chemistry import TaurexChemistry, ConstantGas, TwoLayerGas
    from taurex.data.profiles.chemistry.gas.powergas import PowerGas
    from taurex.data.planet import Planet
    from taurex.data.stellar import BlackbodyStar
    from taurex import contributions as CT
    from taurex.model import TransmissionModel, EmissionModel, DirectImageModel
    rng = ctx.rng
    reg, mix, _ = c15.export_registry()
    info = {i['name']: i for s in reg for i in reg[s]}
    rec = c15.Recorder()
    for s in reg:
        for i in reg[s]:
            rec.wrap(i['cls'])
    tpfile = os.path.join(tmp, 'tp.txt')
    np.savetxt(tpfile, np.array([[1500.0, 1e7], [1200.0, 1e4], [900.0, 1e1], [700.0, 1e-3]]))
    exprs, metas = [], []
    try:
        for n in range(ctx.n(30, 240)):
            mt = ['transmission', 'emission', 'direct'][n % 3]
            tk = ['iso', 'guillot', 'npoint', 'rodgers', 'file'][(n // 3) % 5]
            gk = rng.choice(['const', 'twolayer', 'power', 'powerauto'])
            contribs = ['Absorption'] + rng.sample(['CIA', 'Rayleigh', 'SimpleClouds', 'FlatMie'], rng.randint(0, 3))
            spec = tmodel.gen_spec(rng, ngas=2, contribs=['Absorption', 'CIA', 'Rayleigh', 'SimpleClouds', 'FlatMie'],
                                   nlayers=rng.randint(4, 7), nwn=8)
            spec['T'] = [1000.0]
            tmodel.build(spec)        # fills the caches with the in-memory opacities
            g0, g1 = spec['gases'][:2]
            rec.calls, rec.depth = [], 0
            chem = TaurexChemistry(fill_gases=['H2', 'He'], ratio=spec['he_h2'])
            chem.addGas(dict(
                const=lambda: ConstantGas(g0, mix_ratio=10 ** rng.uniform(-6, -3)),
                twolayer=lambda: TwoLayerGas(g0, mix_ratio_surface=10 ** rng.uniform(-5, -3), mix_ratio_top=10 ** rng.uniform(-8, -6),
                                             mix_ratio_P=10 ** rng.uniform(2, 4), mix_ratio_smoothing=rng.randint(2, 4)),
                power=lambda: PowerGas(g0, profile_type=rng.choice(['H2O', 'TiO', 'Na']), mix_ratio_surface=10 ** rng.uniform(-5, -3),
                                       alpha=rng.uniform(0.6, 2.0), beta=rng.uniform(1.5e4, 5e4), gamma=rng.uniform(6, 20)),
                powerauto=lambda: PowerGas(g0, profile_type=rng.choice(['H2O', 'TiO', 'VO'])))[gk]())
            chem.addGas(ConstantGas(g1, mix_ratio=10 ** rng.uniform(-6, -4)))
            nl = spec['nlayers']
            temp = dict(
                iso=lambda: Isothermal(T=rng.uniform(700, 1800)),
                guillot=lambda: Guillot2010(T_irr=rng.uniform(900, 1800), kappa_irr=rng.uniform(0.005, 0.05), kappa_v1=rng.uniform(0.001, 0.01),
                                            kappa_v2=rng.uniform(0.001, 0.01), alpha=rng.uniform(0.2, 0.8), T_int=rng.uniform(50, 400)),
                npoint=lambda: NPoint(T_surface=rng.uniform(1300, 1800), T_top=rng.uniform(500, 900), P_surface=spec['pmax'], P_top=spec['pmin'],
                                      temperature_points=[rng.uniform(1000, 1300), rng.uniform(800, 1000)],
                                      pressure_points=[spec['pmax'] * 0.1, spec['pmin'] * 10 if spec['pmin'] * 100 < spec['pmax'] else spec['pmax'] * 0.01],
                                      smoothing_window=rng.randint(2, 4), limit_slope=rng.randint(10 ** 5, 10 ** 6)),
                rodgers=lambda: Rodgers2000(temperature_layers=[rng.uniform(800, 1500) for _ in range(nl)],
                                            correlation_length=rng.uniform(2, 8)),
                file=lambda: TemperatureFile(filename=tpfile, skiprows=0, temp_col=0, press_col=1))[tk]()
            planet = Planet(planet_mass=spec['planet_mass'], planet_radius=spec['planet_radius'], planet_distance=rng.uniform(0.02, 2),
                            impact_param=rng.uniform(0, 0.9), orbital_period=rng.uniform(1, 20), albedo=rng.uniform(0, 0.6),
                            transit_time=rng.uniform(2000, 9000))
            star = BlackbodyStar(temperature=spec['star_T'], radius=spec['star_radius'], distance=rng.uniform(2, 50),
                                 magnitudeK=rng.uniform(5, 12), mass=rng.uniform(0.5, 1.5), metallicity=rng.uniform(0.5, 1.5))
            kw = dict(planet=planet, star=star, temperature_profile=temp, chemistry=chem, nlayers=nl,
                      atm_min_pressure=spec['pmin'], atm_max_pressure=spec['pmax'])
            if mt == 'transmission':
                kw['new_path_method'] = rng.random() < 0.5
            else:
                kw['ngauss'] = rng.randint(2, 6)
            M = dict(transmission=TransmissionModel, emission=EmissionModel, direct=DirectImageModel)[mt]
            model = M(**kw)
            for c in contribs:
                model.add_contribution(tmodel.make_contrib(c, spec, CT))
            orig = [(nm[-1], dict(a)) for nm, a in rec.calls]
            rp = dict(part='model', model=mt, temperature=tk, gas=gk, contributions=contribs,
                      parameters=[(nm, {k: v for k, v in a.items() if k not in COMPONENT_ARGS}) for nm, a in orig])
            ctx.count('C-model:' + mt)
            ctx.count('C-temperature:' + tk)
            ctx.count('C-gas:' + gk)
            path = os.path.join(tmp, 'c.h5')
            try:
                with np.errstate(all='ignore'), contextlib.redirect_stdout(io.StringIO()):
                    model.build()
                    r1 = model.model()
            except Exception as e:
                ctx.count('C-model-invalid')
                continue
            # the per-contribution dictionaries the program stores get output_size - 3
            from taurex.util.output import store_contributions
            from taurex.binning import FluxBinner, SimpleBinner, NativeBinner
            from taurex import OutputSize
            for named in (OutputSize.heavy, OutputSize.light, OutputSize.lighter):
                bw = np.sort(np.array(rng.sample(list(np.linspace(float(r1[0][0]) + 1, float(r1[0][-1]) - 1, 30)), 3)))
                bk = rng.choice([FluxBinner, SimpleBinner, NativeBinner])
                binner = bk() if bk is NativeBinner else bk(bw)
                try:
                    with np.errstate(all='ignore'):
                        tree = store_contributions(binner, model, output_size=named - 3)
                        _, per_c = model.model_contrib()
                        _, per_k = model.model_full_contrib()
                except Exception as e:
                    import traceback
                    ctx.violation('contribution-store-raises', 'store_contributions raised %r with a %s\n%s'
                                  % (e, bk.__name__, traceback.format_exc()[-500:]), replay=rp)
                    continue
                # what was computed is what is stored: every contribution and every component of it, with its own spectrum
                bad_c = None
                if sorted(tree) != sorted(per_c):
                    bad_c = 'stored contributions %r, modelled %r' % (sorted(tree), sorted(per_c))
                for cn in per_c:
                    if bad_c:
                        break
                    want = [(cn, '', per_c[cn][0])] + [(cn, nm, fl) for nm, fl, _, _ in per_k[cn]]
                    for cn_, nm, fl in want:
                        node = tree[cn_].get(nm) if nm else tree[cn_]
                        if not isinstance(node, dict) or 'native_spectrum' not in node:
                            bad_c = 'no native spectrum stored for %s/%s' % (cn_, nm)
                        elif not np.allclose(node['native_spectrum'], fl, rtol=1e-12, atol=0, equal_nan=True):
                            bad_c = 'stored native spectrum of %s/%s differs from the modelled one' % (cn_, nm)
                        elif bk is not NativeBinner:
                            with np.errstate(all='ignore'):
                                wb = binner.bindown(np.array(r1[0]), np.array(fl))[1]
                            if 'binned_spectrum' not in node or not np.allclose(node['binned_spectrum'], wb, rtol=1e-12, atol=0, equal_nan=True):
                                bad_c = 'stored binned spectrum of %s/%s is not the binned modelled one' % (cn_, nm)
                        if bad_c:
                            break
                if bad_c:
                    ctx.violation('contribution-values', 'contributions stored with a %s: %s' % (bk.__name__, bad_c), replay=rp)
                ctx.count('C-contribution-tree:' + bk.__name__)
                found = []

                def walk(dd, pfx):
                    for kk, vv in dd.items():
                        if isinstance(vv, dict):
                            walk(vv, pfx + '/' + kk)
                        elif kk in ('binned_tau', 'native_tau'):
                            found.append(pfx + '/' + kk)
                walk(tree, '')
                want_b, want_n = int(named) - 3 > 1, int(named) - 3 > 3
                if any(('binned_tau' in f_) != want_b for f_ in found if 'binned_tau' in f_) or \
                        any(('native_tau' in f_) != want_n for f_ in found if 'native_tau' in f_) or \
                        (want_b and bk is not NativeBinner and not any('binned_tau' in f_ for f_ in found)):
                    ctx.violation('contribution-tau', 'contributions stored for output size %s hold optical depths %r; expected '
                                  'binned: %s, native: %s' % (named.name, found[:4], want_b, want_n), replay=rp)
            try:
                with np.errstate(all='ignore'), HDF5Output(path) as o:
                    model.write(o)
            except Exception as e:
                import traceback
                ctx.violation('model-write-raises:' + where(traceback.format_exc()),
                              'model.write raised %r for %s / %s / %s\n%s' % (e, mt, tk, gk, traceback.format_exc()[-700:]), replay=rp)
                continue
            # written names per component group
            written = {}
            with h5py.File(path, 'r') as f:
                mp = f['ModelParameters']
                written[type(model).__name__] = list(mp.keys())
                written[type(temp).__name__] = list(mp['Temperature'].keys())
                written[type(planet).__name__] = list(mp['Planet'].keys())
                written[type(star).__name__] = list(mp['Star'].keys())
                written['TaurexChemistry'] = list(mp['Chemistry'].keys())
                for g in (g0, g1):
                    written.setdefault(dec_b(mp['Chemistry'][g]['gas_type'][()]), list(mp['Chemistry'][g].keys()))
                for cname in mp['Contributions']:
                    written[cname] = list(mp['Contributions'][cname].keys())
                written[type(model.pressure).__name__] = list(mp['Pressure'].keys())
            rec.calls, rec.depth = [], 0
            try:
                with np.errstate(all='ignore'), contextlib.redirect_stdout(io.StringIO()):
                    m2 = taurex_hdf5_to_model(path)
                    new = [(nm[-1], dict(a)) for nm, a in rec.calls]
                    m2.build()
                    # the order of the contributions is not a stored quantity (a rebuilt model re-adds them in name order)
                    # and the licensed tau > 10 cut-off of C01 depends on it (differences up to exp(-10) per layer,
                    # 6.8e-7 of the spectrum observed): the rebuilt model is evaluated with the original's order
                    want_ = [type(c).__name__ for c in model.contribution_list]
                    if sorted(want_) == sorted(type(c).__name__ for c in m2.contribution_list):
                        m2.contribution_list.sort(key=lambda c: want_.index(type(c).__name__))
                    r2 = m2.model()
            except Exception as e:
                import traceback
                ctx.violation('model-reload-raises:' + tk + ':' + gk, 'a written model (%s / %s / %s) cannot be rebuilt: %r\n%s'
                              % (mt, tk, gk, e, traceback.format_exc()[-700:]), replay=rp)
                continue
            bad = []
            if type(m2) is not type(model):
                bad.append('model type %s -> %s' % (type(model).__name__, type(m2).__name__))
            if sorted(type(c).__name__ for c in m2.contribution_list) != sorted(type(c).__name__ for c in model.contribution_list):
                bad.append('contributions %r -> %r' % ([type(c).__name__ for c in model.contribution_list],
                                                      [type(c).__name__ for c in m2.contribution_list]))
            od, nd = {}, {}
            for nm, a in orig:
                od.setdefault(nm, []).append(a)
            for nm, a in new:
                nd.setdefault(nm, []).append(a)
            for nm in od:
                if nm not in nd or len(nd[nm]) != len(od[nm]):
                    bad.append('%s: built %d time(s) originally, %d on reload' % (nm, len(od[nm]), len(nd.get(nm, []))))
                    continue
                defaults = {k: eval(v) for k, v in info[nm]['defaults']} if nm in info else {}
                key = (lambda a: str(a.get('molecule_name'))) if 'Gas' in nm else (lambda a: '')
                for a, b in zip(sorted(od[nm], key=key), sorted(nd[nm], key=key)):
                    for k in sorted(set(a) | set(b)):
                        if k in COMPONENT_ARGS or (k in SUPERSEDED and 'Model' in nm) or k == 'covariance_matrix' or k in ALIASES:
                            continue
                        va = a[k] if k in a else defaults.get(k)
                        vb = b[k] if k in b else defaults.get(k)
                        if not same_param(va, vb):
                            bad.append('%s.%s: %r -> %r' % (nm, k, va, vb))
            # (same order of contributions, see above: what remains is rounding; a lost parameter is caught exactly by the
            # constructor comparison above)
            if not np.allclose(r1[1], r2[1], rtol=1e-7, atol=0, equal_nan=True):
                bad.append('spectrum differs by up to %.3g (relative)' % float(np.nanmax(np.abs(r1[1] - r2[1]) / np.abs(r1[1]))))
            ctx.case(('C', mt, tk, gk, tuple(contribs), float(r1[1][0])), nontrivial=True,
                     sample=dict(part='model', model=mt, temperature=tk, gas=gk, contributions=contribs))
            if bad:
                sig = sorted({b.split(':')[0].split(' ')[0] for b in bad if '.' in b.split(':')[0]}) or ['spectrum']
                ctx.violation('model-reload:' + '+'.join(sig), 'model written and rebuilt (%s / %s / %s): %s' % (mt, tk, gk, '; '.join(bad)),
                              replay=rp)
            else:
                ctx.validated()
            # the model: which constructor keywords are not written under their own name
            for cname, wr in written.items():
                if cname not in info:
                    continue
                defaults = {k: eval(v) for k, v in info[cname]['defaults']}
                # keywords the original was built with away from their default: these must come back
                kwargs = sorted({k for a in od.get(cname, []) for k in a
                                 if k in defaults and k not in COMPONENT_ARGS and k != 'molecule_name' and k not in ALIASES
                                 and k != 'covariance_matrix' and not (k in SUPERSEDED and 'Model' in cname)
                                 and not same_param(a[k], defaults[k])})
                exprs.append('run_incomplete %s %s' % (C.clist([coq_str(k) for k in kwargs]), C.clist([coq_str(k) for k in wr])))
                metas.append(dict(cname=cname, kwargs=kwargs, written=wr, rp=rp, lost=[b for b in bad if b.startswith(cname + '.')]))
    finally:
        rec.remove()
    seen = set()
    for mt, out in zip(metas, C.run_cases('C16c', HEADER, exprs, shard=60)):
        missing = [dec(x) for x in out]
        lost = sorted({b.split(':')[0].split('.')[1] for b in mt['lost']})
        ctx.case(('C-written', mt['cname'], tuple(mt['written'])), nontrivial=len(mt['kwargs']) >= 1)
        # a keyword the model says is unwritten must be one the reload lost (unless it kept its default), and vice versa
        extra = [k for k in lost if k not in missing]
        if extra and (mt['cname'], tuple(extra)) not in seen:
            seen.add((mt['cname'], tuple(extra)))
            ctx.violation('reload-model:' + mt['cname'], '%s: keyword(s) %r are written under their own name (model: they '
                          'reach the constructor) but the rebuilt component differs' % (mt['cname'], extra), replay=mt['rp'])
        elif missing and (mt['cname'], tuple(missing)) not in seen:
            seen.add((mt['cname'], tuple(missing)))
            ctx.violation('unwritten:%s:%s' % (mt['cname'], '+'.join(missing)),
                          '%s.write does not store constructor keyword(s) %r under their own name: a rebuilt model gets '
                          'the constructor default instead' % (mt['cname'], missing), replay=mt['rp'])
        else:
            ctx.validated()


def dec_b(v):
    return v.decode() if isinstance(v, bytes) else str(v)


def where(tb):
    for l in reversed(tb.splitlines()):
        if '/taurex/' in l and 'File' in l:
            return os.path.basename(l.split('"')[1]).replace('.py', '')
    return 'unknown'


def run(ctx):
    C.source_tie(ctx, 'C16', [('taurex/util/util.py', 'wnwidth_to_wlwidth', 'gen_wnwidth_to_wlwidth')])
    tmp = os.path.join(C.CACHE, 'c16_%d' % os.getpid())
    os.makedirs(tmp, exist_ok=True)
    try:
        part_a(ctx, tmp)
        part_b(ctx, tmp)
        part_c(ctx, tmp)
    finally:
        import shutil
        shutil.rmtree(tmp, ignore_errors=True)


def replay(ctx, obj):
    ctx.notes.append('replay re-runs the whole deterministic check with the stored seed')
    run(ctx)
