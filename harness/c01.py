"""C01 — the transmission spectrum equals the documented transit-depth integral."""
import math

import numpy as np

import common as C
import tmodel

META = dict(
    rule='(cross-section mode and, with degenerate k-tables up to complete black-out, correlated-k mode) '
         'random planets/stars, 2..12 layers, pressure ranges, isothermal and arbitrary temperature profiles, '
         '1..3 absorbers with in-memory tables from fully transparent to saturated, random subsets of '
         '{Absorption, CIA, Rayleigh, SimpleClouds, FlatMie}, both path-length methods; non-trivial = some layer '
         'has a transmittance strictly between 1e-6 and 1-1e-6; distinct by the generated spec',
    trusted=['per-contribution weighted cross-sections (sigma_xsec after prepare), density, altitudes and layer '
             'thicknesses are observed on the real model and handed to the Gallina model, which recomputes chord '
             'lengths, optical depths (with the tau>10 early exit), transmittances and the transit depth in 80-bit '
             'interval arithmetic',
             'opacity interpolation and hydrostatics feeding these inputs are the subject of C04 / C11'],
    modelled=['TransmissionModel.compute_path_length_old, compute_path_length (taurex.util.geometry restricted to '
              'the parallel_vector configuration), path_integral, compute_absorption; contribute_tau, '
              'contribute_cia, SimpleCloudsContribution.contribute'],
    assumptions=['cross-sections, densities, path lengths >= 0; Rs > 0',
                 'floating-point rounding outside the model: path lengths compared at 1e-9*(Rp+z_top), '
                 'transmittance at 1e-9 absolute, depth at 1e-9 relative'],
)

HEADER = C.HEADER_IV + 'From TV Require Import Model_C01 Exec_C01.\n'


def observe(model):
    """run the real model and collect what the Gallina model needs + what it must reproduce"""
    from taurex.contributions import CIAContribution, SimpleCloudsContribution
    with np.errstate(all='ignore'):
        wn, depth, trans, _ = model.model()
    cs = []
    for c in model.contribution_list:
        s = np.array(c.sigma_xsec, float)
        if isinstance(c, SimpleCloudsContribution):
            cs.append(('cloud', [bool(np.isinf(row).any()) for row in s], type(c).__name__))
        elif isinstance(c, CIAContribution):
            cs.append(('sig2', s, type(c).__name__))
        else:
            cs.append(('sig', s, type(c).__name__))
    return dict(wn=np.array(wn), depth=np.array(depth), trans=np.array(trans),
                path=[np.array(p, float) for p in model.path_length],
                Rp=float(model.planet.fullRadius), Rs=float(model.star.radius),
                z=np.array(model.altitudeProfile, float), dz=np.array(model.deltaz, float),
                zb=np.array(model.altitude_boundaries, float), rho=np.array(model.densityProfile, float),
                cs=cs, newm=bool(model.new_method))


def contrib_lit(c):
    kind, data, _ = c
    if kind == 'cloud':
        return '(Cloud %s)' % C.clist([C.boollit(b) for b in data])
    rows = C.clist([C.ivlist(r) for r in data])
    return '(Sig %s %s)' % (C.boollit(kind == 'sig2'), rows)


def model_expr(o):
    m = len(o['wn'])
    return 'run_transit %s %s %s %s %s %s %s %s %s' % (
        C.boollit(o['newm']), C.iv(o['Rp']), C.iv(o['Rs']), C.ivlist(o['z']), C.ivlist(o['dz']),
        C.ivlist(o['zb']), C.ivlist(o['rho']), C.clist([contrib_lit(c) for c in o['cs']]), C.natlit(m))


def oracle(ctx, o, spec):
    """consequences stated in the property, evaluated on the implementation's own output"""
    Rp, Rs, z, dz = o['Rp'], o['Rs'], o['z'], o['dz']
    bare = (Rp / Rs) ** 2
    opaque = (Rp ** 2 + np.sum(2 * (Rp + z) * dz)) / Rs ** 2
    d = o['depth']
    rp = dict(spec=spec)
    if np.any(~np.isfinite(d)):
        ctx.violation('depth-nonfinite', 'transit depth not finite: %r' % d, replay=rp)
        return
    if np.any(d < bare * (1 - 1e-12)) or np.any(d > opaque * (1 + 1e-12)):
        ctx.violation('depth-bounds', 'depth %r outside [bare %r, opaque %r]' % (d, bare, opaque), replay=rp)
    # documented integral from the implementation's own transmittance
    doc = (Rp ** 2 + np.sum(2 * (Rp + z)[:, None] * (1 - o['trans']) * dz[:, None], axis=0)) / Rs ** 2
    if not np.allclose(doc, d, rtol=1e-10, atol=0):
        ctx.violation('depth-integral', 'depth %r is not the documented integral %r of exp(-tau)' % (d, doc),
                      replay=rp)
    # documented slant optical depth, recomputed independently in floating point (un-cut), chords by
    # elementary geometry of concentric shells
    n = len(z)
    tau = np.zeros_like(o['trans'])
    opaque = np.zeros(n, bool)
    for l in range(n):
        if o['newm']:
            b = Rp + z[l] + dz[l] / 2
            r = Rp + o['zb'][l + 1:]
        else:
            b = Rp + dz[0] / 2 + z[l]
            r = Rp + dz[0] / 2 + z[l:] + dz[l:] / 2
        half = np.sqrt(np.maximum(r ** 2 - b ** 2, 0.0))
        chord = 2 * np.diff(np.concatenate([[0.0], half]))
        for kind, data, _ in o['cs']:
            if kind == 'cloud':
                opaque[l] |= bool(data[l])
            else:
                dens = o['rho'][l:] ** (2 if kind == 'sig2' else 1)
                tau[l] += np.sum(np.asarray(data)[l:] * (chord * dens)[:, None], axis=0)
    with np.errstate(all='ignore'):
        tdoc = np.where(opaque[:, None], 0.0, np.exp(-tau))
    if np.any(np.abs(tdoc - o['trans']) > math.exp(-10) + 1e-7):
        l, w = np.unravel_index(np.argmax(np.abs(tdoc - o['trans'])), tdoc.shape)
        ctx.violation('depth-tau', 'transmittance %r of layer %d differs from exp(-documented slant optical '
                      'depth) = %r by more than the exp(-10) cut-off' % (o['trans'][l, w], l, tdoc[l, w]),
                      replay=rp)
    if spec['level'] == 'transparent' and all(c[0] == 'sig' and not np.any(c[1]) for c in o['cs']):
        if not np.allclose(d, bare, rtol=1e-12):
            ctx.violation('transparent', 'nothing absorbs but depth %r != (Rp/Rs)^2 %r' % (d, bare), replay=rp)


def sources_oracle(ctx, model, o, spec):
    """the integral sums over every species of every source: the per-layer cross-section a source hands to the path
    integral is the sum of (abundance factor x raw cross-section) over ITS components, computed here from the public
    opacity / cia / rayleigh functions (shared with C03)"""
    import c03
    for c in model.contribution_list:
        comps = c03.components(model, c, o['wn'])
        if comps is None:
            continue
        want = np.zeros((len(model.temperatureProfile), len(o['wn'])))
        for name, f, x in comps:
            want += np.asarray(f)[:, None] * np.asarray(x)
        got = np.array(c.sigma_xsec, float)
        if got.shape != want.shape or not np.allclose(got, want, rtol=1e-9, atol=0):
            ctx.violation('source-total:' + type(c).__name__,
                          '%s enters the optical depth with %r in layer 0 where the sum over its %d component(s) %r is %r'
                          % (type(c).__name__, got[0][:3], len(comps), [n for n, _, _ in comps], want[0][:3]),
                          replay=dict(spec=spec))


def compare(o, res):
    paths, tr, depth = res
    top = o['Rp'] + o['zb'][-1]
    if len(paths) != len(o['path']):
        return 'number of rays %d vs model %d' % (len(o['path']), len(paths))
    for l, (pi, pm) in enumerate(zip(o['path'], paths)):
        if len(pi) != len(pm):
            return 'ray %d has %d segments, model %d' % (l, len(pi), len(pm))
        for k, (x, v) in enumerate(zip(pi, pm)):
            if not C.in_enclosure(float(x), v, rel=0, abs_=1e-9 * top):
                return 'path length ray %d segment %d: impl %r model %r' % (l, k, float(x), C.iv_mid(v))
    for l in range(len(tr)):
        for w in range(len(tr[l])):
            x = float(o['trans'][l, w])
            if not C.in_enclosure(x, tr[l][w], rel=1e-9, abs_=1e-9):
                return 'transmittance layer %d wn %d: impl %r model %r' % (l, w, x, C.iv_mid(tr[l][w]))
    for w, v in enumerate(depth[0]):
        x = float(o['depth'][w])
        if not C.in_enclosure(x, v, rel=1e-9):
            return 'depth wn %d: impl %r model %r' % (w, x, C.iv_mid(v))
    return None


def run(ctx):
    C.source_tie(ctx, 'C01', [
        dict(file='taurex/model/transmission.py', cls='TransmissionModel', method='compute_absorption', coq='gen_depth',
             params=['tau', 'self.altitudeProfile', 'self._planet.fullRadius', 'self._star.radius', 'dz'], results=None)])
    rng = ctx.rng
    N = ctx.n(70, 600)
    obs, exprs, specs = [], [], []
    for i in range(N):
        spec = tmodel.gen_spec(rng)
        if i % 9 == 4:
            # every run: very extended atmospheres (top boundary beyond ~0.4 planetary radii), both path methods
            spec = tmodel.gen_spec(rng, extent=(0.45, 0.6))
            spec['new_path'] = (i % 18 == 4)
            ctx.count('extended atmosphere')
        if i % 9 == 7:
            # every run: a star smaller than its planet (a giant planet transiting a white dwarf): the documented ratio
            # of areas then exceeds one, and is still the integral
            spec['star_radius'] = spec['planet_radius'] * 0.10049 * rng.uniform(0.1, 0.9)     # Rjup/Rsun = 0.10049
            ctx.count('star smaller than the planet')
        try:
            model = tmodel.build(spec)
            o = observe(model)
        except Exception as e:
            ctx.violation('impl-raises:' + C.err_kind(e), 'TransmissionModel raised %r' % (e,),
                          replay=dict(spec=spec))
            continue
        oracle(ctx, o, spec)
        sources_oracle(ctx, model, o, spec)
        obs.append(o)
        specs.append(spec)
        exprs.append(model_expr(o))
        if rng.random() < 0.4:
            # the same model object re-configured and evaluated again (what a retrieval does between likelihood calls)
            upd = {}
            try:
                with np.errstate(all='ignore'):
                    if rng.random() < 0.6:
                        upd['planet_radius'] = float(model['planet_radius']) * rng.uniform(0.8, 1.2)
                        model['planet_radius'] = upd['planet_radius']
                    g = rng.choice(spec['gases'])
                    if rng.random() < 0.6 and float(model[g]) > 0:
                        upd[g] = float(model[g]) * 10 ** rng.uniform(-1, 1)
                        model[g] = upd[g]
                    if 'T' in model.fittingParameters and rng.random() < 0.6:
                        upd['T'] = rng.uniform(300, 2500)
                        model['T'] = upd['T']
                    if rng.random() < 0.3:
                        upd['star.radius'] = None
                    o2 = observe(model)
                spec2 = dict(spec, updated=upd)
                oracle(ctx, o2, spec2)
                sources_oracle(ctx, model, o2, spec2)
                obs.append(o2)
                specs.append(spec2)
                exprs.append(model_expr(o2))
                ctx.count('re-evaluated after update')
            except Exception as e:
                ctx.violation('impl-raises:update', 'TransmissionModel raised %r after parameter updates %r' % (e, upd),
                              replay=dict(spec=spec, updated=upd))
        ctx.count('level:' + spec['level'])
        ctx.count('path:' + ('new' if o['newm'] else 'old'))
        ctx.count('layers:%d' % spec['nlayers'])
        for c in o['cs']:
            ctx.count('contrib:' + c[2])
    # ---- correlated-k opacity mode: the same integral with the molecular optical depth taken from k-tables. The tables
    # are degenerate (equal coefficients at every quadrature point, random weights), so the depth must be the one of
    # the coefficients read as cross-sections — including atmospheres so opaque that exp(-tau) underflows to zero
    import os
    import shutil
    kdir = os.path.join(C.CACHE, 'ktables_c01_%d' % os.getpid())
    try:
        for i in range(ctx.n(14, 100)):
            spec = tmodel.gen_spec(rng, contribs=['Absorption'] + [c for c in ['CIA', 'Rayleigh', 'SimpleClouds'] if rng.random() < 0.25])
            if rng.random() < 0.3:
                spec['opac'] = {g: dict(o_, tab=np.array(o_['tab']) * 1e6 + 1e-18) for g, o_ in spec['opac'].items()}
                spec['level'] = 'blackout'
            spec['opacity_mode'] = 'ktables'
            nq = rng.choice([1, 2, 4])
            w = np.array([rng.uniform(0.05, 1) for _ in range(nq)])
            w = w / w.sum()
            w[-1] = 1.0 - w[:-1].sum()
            spec['kweights'] = w
            try:
                tmodel.write_ktables(spec, kdir, w)
                model = tmodel.build(spec, kdir=kdir)
                o = observe(model)
            except Exception as e:
                ctx.violation('impl-raises:ktables:' + C.err_kind(e), 'TransmissionModel (k-tables) raised %r' % (e,),
                              replay=dict(spec=spec))
                continue
            ok3 = True
            for j, (kind, sg, nm) in enumerate(o['cs']):
                if kind == 'sig' and np.ndim(sg) == 3:
                    if not np.array_equal(sg, np.repeat(sg[..., :1], sg.shape[-1], axis=-1)):
                        ctx.violation('ktables-not-degenerate', 'degenerate k-tables were prepared into coefficients that '
                                      'differ between quadrature points', replay=dict(spec=spec))
                        ok3 = False
                    o['cs'][j] = (kind, sg[..., 0], nm)
            if not ok3:
                continue
            oracle(ctx, o, spec)
            obs.append(o)
            specs.append(spec)
            exprs.append(model_expr(o))
            ctx.count('opacity mode: k-tables')
            ctx.count('level:' + spec['level'])
    finally:
        shutil.rmtree(kdir, ignore_errors=True)
        tmodel.reset_caches()
    results = C.run_cases('C01', HEADER, exprs, shard=5)
    for o, spec, res in zip(obs, specs, results):
        bad = compare(o, res)
        t = o['trans']
        nontriv = bool(np.any((t > 1e-6) & (t < 1 - 1e-6)))
        ctx.case(repr((spec['nlayers'], spec['contribs'], spec['level'], spec.get('opacity_mode', 'xsec'), float(o['depth'][0]))),
                 nontrivial=nontriv,
                 sample=dict(nlayers=spec['nlayers'], contribs=spec['contribs'], level=spec['level'],
                             new_path=o['newm'], depth=o['depth'][:2]))
        if bad is None:
            ctx.validated()
        else:
            ctx.violation('correspondence:transit', 'model/implementation disagree: ' + bad,
                          replay=dict(spec=spec), no_input=not any(
                              v['signature'].startswith('depth') or v['signature'] == 'transparent'
                              for v in ctx.violations))
    scaling_search(ctx, rng)


def scaling_search(ctx, rng):
    """never decreases when every cross-section is scaled up (to within the cut-off)"""
    for i in range(ctx.n(8, 60)):
        spec = tmodel.gen_spec(rng, contribs=['Absorption'])
        d0 = observe(tmodel.build(spec))
        f = rng.choice([2.0, 10.0, 1e3])
        spec2 = dict(spec)
        spec2['opac'] = {g: dict(o, tab=o['tab'] * f) for g, o in spec['opac'].items()}
        d1 = observe(tmodel.build(spec2))
        slack = math.exp(-10) * np.sum(2 * (d0['Rp'] + d0['z']) * d0['dz']) / d0['Rs'] ** 2
        ctx.case(('scale', i, f))
        if np.any(d1['depth'] < d0['depth'] - slack - 1e-12 * d0['depth']):
            ctx.violation('scaling', 'depth decreased when cross-sections were scaled by %g: %r -> %r'
                          % (f, d0['depth'], d1['depth']), replay=dict(spec=spec, factor=f))
        else:
            ctx.validated()


def replay(ctx, obj):
    spec = obj['replay']['spec']
    for k in ('wn', 'T'):
        spec[k] = np.array(spec[k]) if k == 'wn' else list(spec[k])
    for g in spec['opac']:
        for k in ('Tg', 'Pg', 'tab', 'wn'):
            spec['opac'][g][k] = np.array(spec['opac'][g][k])
    spec['cia']['xsec'] = np.array(spec['cia']['xsec'])
    if spec.get('opacity_mode') == 'ktables':
        import os
        import shutil
        kdir = os.path.join(C.CACHE, 'ktables_c01_%d' % os.getpid())
        try:
            tmodel.write_ktables(spec, kdir, np.array(spec['kweights'], float))
            o = observe(tmodel.build(spec, kdir=kdir))
        finally:
            shutil.rmtree(kdir, ignore_errors=True)
            tmodel.reset_caches()
        o['cs'] = [(k_, sg[..., 0] if (k_ == 'sig' and np.ndim(sg) == 3) else sg, nm) for k_, sg, nm in o['cs']]
    else:
        o = observe(tmodel.build(spec))
    oracle(ctx, o, spec)
    res = C.run_cases('C01_replay', HEADER, [model_expr(o)])
    bad = compare(o, res[0])
    ctx.case('replay')
    if bad:
        ctx.violation('correspondence:transit', bad, replay=dict(spec=spec), no_input=True)
    else:
        ctx.validated()
