"""./check Cxx [--tier quick|thorough] [--replay file] [--no-build]

1. gate (no axioms / admits / switched-off checks anywhere in coq/)
2. build the whole Coq development (full .vo), re-compile Props_Cxx.v and
   compare every Print Assumptions with the whitelist
3. run the property's driver: correspondence model <-> implementation on
   generated inputs + violation search with the property oracles
4. known findings, evidence, exit code
"""
import argparse
import hashlib
import importlib
import json
import os
import sys
import time
import traceback

sys.path.insert(0, os.path.dirname(os.path.abspath(__file__)))
import common as C  # noqa: E402


def main():
    ap = argparse.ArgumentParser()
    ap.add_argument('prop')
    ap.add_argument('--tier', default=os.environ.get('VERIF_TIER', 'quick'))
    ap.add_argument('--replay', default=None)
    ap.add_argument('--no-build', action='store_true')
    args = ap.parse_args()
    prop = args.prop
    tier = args.tier if args.tier in ('quick', 'thorough') else 'quick'
    seed = int(os.environ.get('VERIF_SEED', '0') or 0)
    os.environ['PYTHONHASHSEED'] = '0'
    # the implementation draws from Python's and numpy's global generators (random_int_iter, nestle ...): seed them so
    # that a run is reproducible; the drivers themselves only use ctx.rng
    import random as _random
    _random.seed(seed)
    try:
        import numpy as _np
        _np.random.seed(seed % (2 ** 32))
    except Exception:
        pass
    ctx = C.Ctx(prop, tier, seed)
    mod = importlib.import_module(prop.lower())
    meta = getattr(mod, 'META', {})

    # ---- 1/2: Coq side -------------------------------------------------
    proof_broken = None
    bad = C.gate()
    if bad:
        proof_broken = 'forbidden declarations: ' + '; '.join(bad[:10])
    if not args.no_build and proof_broken is None:
        ok, log = C.build_coq(clean=False)
        if not ok:
            proof_broken = 'coq build failed:\n' + log[-3000:]
    if proof_broken is None:
        ok, thms, assum, log = C.props_check(prop)
        ctx.obligations = thms
        allowed = set(C.STDLIB_AXIOMS) | set(meta.get('extra_axioms', []))
        for t in thms:
            axs = assum.get(t)
            if axs is None:
                continue
            extra = [a for a in axs if a not in allowed and not a.startswith(C.STDLIB_AXIOM_PREFIXES)]
            if extra:
                proof_broken = 'theorem %s depends on non-whitelisted axioms %s' % (t, extra)
            else:
                ctx.discharged.append(t)
            prim = [a for a in axs if a.startswith(C.STDLIB_AXIOM_PREFIXES)]
            ctx.assumptions[t] = [a for a in axs if a not in prim] + (
                ['Uint63.* / PrimInt63.* (%d names: the standard library\'s primitive 63-bit integers and their '
                 'axiomatised specification, through Bignums / Interval)' % len(prim)] if prim else [])
        if not ok and proof_broken is None:
            proof_broken = 'Props_%s.v does not check:\n%s' % (prop, log[-3000:])
        if thorough_coqchk(ctx, prop) is False and proof_broken is None:
            proof_broken = 'coqchk rejected Props_%s.vo' % prop
    if proof_broken:
        ctx.violation('proof:' + prop, proof_broken, no_input=True)

    # ---- 3: driver -----------------------------------------------------
    try:
        C.setup_impl_env()
        if args.replay:
            obj = json.load(open(args.replay))
            mod.replay(ctx, obj)
        else:
            mod.run(ctx)
    except Exception as e:  # harness failure = broken correspondence, reported as such
        tb = traceback.format_exc()
        ctx.violation('harness:' + type(e).__name__,
                      'correspondence harness could not run: %s\n%s' % (e, tb[-3000:]),
                      no_input=True)
    finally:
        C.clean_cases(prop)

    # ---- 4: verdict ----------------------------------------------------
    known = [k for k in C.load_known() if k.get('property') == prop and k.get('status') == 'open']
    # a broken proof / source tie / build is reported with the failing input the search found, when it found one
    open_sigs = {k.get('signature') for k in known}
    concrete = [v for v in ctx.violations if not v['no_input'] and v.get('replay') is not None
                and v['signature'] not in open_sigs]
    for v in ctx.violations:
        if v['no_input'] and concrete:
            v['replay'] = dict(no_longer_checks=v['what'][:600], failing_input=concrete[0]['replay'],
                               found_by=concrete[0]['signature'], observed=concrete[0]['what'][:600])
            v['no_input'] = False
    rc = 0
    n_viol = 0
    for v in ctx.violations:
        match = None
        for k in known:
            if k.get('signature') == v['signature']:
                match = k
        if match is not None:
            print('KNOWN-FINDING: property=%s %s' % (prop, match.get('what', v['what']).splitlines()[0]))
            continue
        n_viol += 1
        h = hashlib.sha1((v['signature']).encode()).hexdigest()[:12]
        path = os.path.join(C.REPLAYS, prop, h + '.json')
        C.write_json(path, dict(property=prop, signature=v['signature'], what=v['what'],
                                no_failing_input_found=bool(v['no_input']),
                                replay=v['replay'], seed=seed, tier=tier, count=v['count']))
        sys.stdout.write('%s\n' % v['what'][:2000])
        print('VIOLATION property=%s replay=%s%s' % (
            prop, path, ' no-failing-input-found' if v['no_input'] else ''))
        rc = 1

    trusted = [
        'Coq 8.16.1 kernel and vm_compute (no native_compute)',
        'axioms per theorem as printed by Print Assumptions: ' + json.dumps(ctx.assumptions, sort_keys=True),
        'the polymorphic model definition is the same Gallina term at the R instance (theorems) '
        'and at the Q / interval instance (execution)',
        'correspondence harness (Python): generators, dyadic literal emitter, output parser, tolerances',
    ] + list(meta.get('trusted', [])) + list(ctx.trusted)
    cov = dict(
        obligations=len(ctx.obligations), discharged=len(ctx.discharged),
        checker_cmd='cd /verif/coq && make (coqc, full .vo) ; coqc Props_%s.v ; Print Assumptions per theorem'
                    % prop + (' ; coqchk -o' if tier == 'thorough' else ''),
        trusted_base=trusted,
        theorems=ctx.obligations,
        evaluations=ctx.cases, distinct_nontrivial=len(ctx.nontrivial),
        rule=meta.get('rule', ''),
        samples=ctx.samples if ctx.samples else ctx.obligations[:3],
        traces_validated_against_impl=ctx.traces,
        input_distribution=ctx.stats,
        notes=ctx.notes,
        modelled_not_verified=meta.get('modelled', []),
    )
    cov.update(ctx.extra)
    ev = dict(property_id=prop, tier=tier, seed=seed, level='proof', coverage=cov,
              assumptions=list(meta.get('assumptions', [])),
              wall_s=round(time.time() - ctx.t0, 2), violations=n_viol)
    C.write_json(os.path.join(C.EVIDENCE, prop + '.json'), ev)
    print('%s tier=%s seed=%d theorems=%d/%d cases=%d validated=%d violations=%d wall=%.1fs' % (
        prop, tier, seed, len(ctx.discharged), len(ctx.obligations), ctx.cases, ctx.traces,
        n_viol, time.time() - ctx.t0))
    return rc


def thorough_coqchk(ctx, prop):
    if ctx.tier != 'thorough' or os.environ.get('VERIF_NO_COQCHK'):
        return None
    rc, out = C.sh('timeout 1500 coqchk -silent -o -Q . TV TV.Props_%s' % prop, cwd=C.COQ, timeout=1600)
    ctx.extra['coqchk'] = out[-3000:]
    return rc == 0


if __name__ == '__main__':
    sys.exit(main())
