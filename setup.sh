#!/bin/bash
# offline build of the whole Coq development (full .vo) + forbidden-declaration gate
set -e
cd "$(dirname "$0")"
export PYTHONPATH=/repo:$(pwd)/harness PYTHONHASHSEED=0 PYTHONDONTWRITEBYTECODE=1
mkdir -p .cache/numba evidence replays coq/cases
/venv/bin/python - <<'PY'
import sys
sys.path.insert(0, 'harness')
import common as C
bad = C.gate()
if bad:
    print('forbidden declarations:', bad); sys.exit(1)
ok, log = C.build_coq(clean=False)
print(log[-2000:])
sys.exit(0 if ok else 1)
PY
